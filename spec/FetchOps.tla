------------------------------ MODULE FetchOps ------------------------------
(***************************************************************************)
(* Pure operators of the concurrent loader (entry/fetcher.go, log_io.go),  *)
(* shared by Fetcher.tla (the model TLC explores) and Trace_Fetcher.tla    *)
(* (validation of what the real fetcher did).                              *)
(*                                                                         *)
(* An instance is a record                                                 *)
(*   [D        stored DAG: sequence of entry records (ids 1..Len(D))       *)
(*    Fault    [1..Len(D) -> "ok"|"missing"|"error"|"garbage"|"slow"]      *)
(*    Start    sequence of requested hashes                                *)
(*    Length   -1 = unbounded                                              *)
(*    Conc     concurrency limit                                           *)
(*    Excluded ids rejected by the caller's ShouldExclude                  *)
(*    Timeout  whether the deadline may fire]                              *)
(* The shared state of the fetcher (protected by the process mutex) is     *)
(*   st = [q, cache, res, minC, maxC, tip]                                 *)
(*   q     set of [p, id]       (priority queue content)                   *)
(*   cache function id -> "added" | "inprogress" | "done" (tasksCache)     *)
(***************************************************************************)
EXTENDS LogOps

Known(inst, h)       == h \in 1..Len(inst.D)
Retrievable(inst, h) == Known(inst, h) /\ inst.Fault[h] = "ok"

\* Fetcher.exclude: already in the task cache, or rejected by the caller
Excl(inst, c, h) == h \in DOMAIN c \/ h \in inst.Excluded

RECURSIVE AddSeq(_, _, _, _, _)
\* ps[i] is the priority of hs[i]; a hash is queued at most once (the cache remembers it)
AddSeq(inst, st, hs, ps, i) ==
  IF i > Len(hs) THEN st
  ELSE IF Excl(inst, st.cache, hs[i]) THEN AddSeq(inst, st, hs, ps, i + 1)
       ELSE AddSeq(inst,
                   [st EXCEPT !.q = @ \cup {[p |-> ps[i], id |-> hs[i]]},
                              !.cache = [x \in DOMAIN st.cache \cup {hs[i]} |->
                                           IF x = hs[i] THEN "added" ELSE st.cache[x]]],
                   hs, ps, i + 1)

ByPosition(hs)  == [i \in 1..Len(hs) |-> i - 1]             \* addHashesToQueue: index = position
Flat(hs, p)     == [i \in 1..Len(hs) |-> p]
RefPrios(hs, p) == [i \in 1..Len(hs) |-> p + (i * (i - 1))]  \* maxClock - ts + (i+1)*i with i zero-based

InitState(inst) ==
  AddSeq(inst, [q |-> {}, cache |-> << >>, res |-> <<>>, minC |-> 0, maxC |-> 0, tip |-> 0],
         inst.Start, ByPosition(inst.Start), 1)

MinP(q) == CHOOSE m \in {x.p : x \in q} : \A y \in q : m <= y.p
Poppable(q) == {x \in q : x.p = MinP(q)}

\* main: pop x, mark it in progress, spawn the worker, count it
LaunchEffect(st, x) ==
  [st EXCEPT !.q = @ \ {x}, !.cache = [@ EXCEPT ![x.id] = "inprogress"], !.tip = @ + 1]

\* worker: the block it executes under the process mutex
ProcessEffect(inst, st, h, ok) ==
  IF ~ok THEN [st EXCEPT !.tip = @ - 1]
  ELSE LET D      == inst.D
           Length == inst.Length
           ts     == D[h].t
           \* updateClock(entry, lastEntry)
           maxN   == IF st.maxC < ts THEN ts ELSE st.maxC
           minN   == IF st.res = <<>> THEN maxN
                     ELSE LET lt == D[st.res[Len(st.res)]].t IN IF lt < st.minC THEN lt ELSE st.minC
           fresh  == st.cache[h] \in {"added", "inprogress"}
           isLater == Len(st.res) >= Length /\ ts >= minN
           admit  == fresh /\ (Length < 0 \/ Len(st.res) < Length \/ isLater)
           resN   == IF admit THEN Append(st.res, h) ELSE st.res
           st1    == [st EXCEPT !.res = resN, !.minC = minN, !.maxC = maxN, !.tip = @ - 1,
                                !.cache = IF fresh THEN [@ EXCEPT ![h] = "done"] ELSE @]
       IN IF ~fresh THEN st1
          ELSE IF Length < 0
               THEN AddSeq(inst, AddSeq(inst, st1, D[h].next, ByPosition(D[h].next), 1),
                           D[h].refs, ByPosition(D[h].refs), 1)
               ELSE LET a == IF Len(resN) < Length \/ ts >= minN
                             THEN AddSeq(inst, st1, D[h].next, Flat(D[h].next, maxN - ts), 1) ELSE st1
                    IN IF Len(resN) + Len(D[h].refs) <= Length
                       THEN AddSeq(inst, a, D[h].refs, RefPrios(D[h].refs, maxN - ts), 1)
                       ELSE a

(***************************************************************************)
(* Declarative notions for the properties                                  *)
(***************************************************************************)
\* entries reachable from the requested hashes along next/refs through retrievable, non-excluded entries
RECURSIVE ReachFrom(_, _, _)
ReachFrom(inst, front, seen) ==
  LET ok == {h \in front : Retrievable(inst, h) /\ h \notin inst.Excluded} \ seen
  IN IF ok = {} THEN seen
     ELSE ReachFrom(inst, UNION {SeqRange(inst.D[h].next) \cup SeqRange(inst.D[h].refs) : h \in ok}, seen \cup ok)
Reach(inst) == ReachFrom(inst, SeqRange(inst.Start), {})

AllOk(inst) == \A h \in 1..Len(inst.D) : inst.Fault[h] = "ok"
NoSlow(inst) == \A h \in 1..Len(inst.D) : inst.Fault[h] # "slow"

LastN(s, n) == IF n >= Len(s) THEN s ELSE SubSeq(s, Len(s) - n + 1, Len(s))
FirstN(s, n) == IF n >= Len(s) THEN s ELSE SubSeq(s, 1, n)

\* the n newest entries of the set S in the (strict) order fn
NewestOf(D, fn, S, n) == SeqRange(LastN(SortIds(D, fn, SetAsSeq(S), FALSE), n))

\* what the loaders of log_io.go make of a fetch result `res` (n = the caller's limit, src = the
\* starting entries): fromMultihash / fromEntryHash sort with NoZeroes(LastWriteWins) and keep the
\* last n resp. max(n,1); fromJSON sorts with Compare and (since the repair) keeps the last n;
\* fromEntry merges the supplied entries in, sorts with Compare, keeps the last max(n,k) and then
\* puts the supplied entries that fell out back in place of the oldest kept non-supplied ones
LoaderKeeps(D, kind, res, n, src) ==
  IF kind = "entry"
  THEN LET comb   == DedupSeq(src \o res, {})
           sorted == SortIds(D, "CLK", comb, FALSE)
           sliced == IF n < 0 THEN sorted ELSE LastN(sorted, MaxInt(n, Len(src)))
           miss   == FilterSeq(DedupSeq(src, {}), SeqRange(src) \ SeqRange(sliced))
           \* room is made by dropping the oldest kept entries that were not supplied (since the repair)
           others == FilterSeq(sliced, SeqRange(sliced) \ SeqRange(src))
           drop   == SeqRange(FirstN(others, Len(miss)))
       IN SeqRange(miss) \cup (SeqRange(sliced) \ drop)
  ELSE IF n < 0 THEN SeqRange(res)
  ELSE LET sorted == SortIds(D, IF kind = "json" THEN "CLK" ELSE "LWW", res, FALSE)
           len    == IF kind = "entryhash" THEN MaxInt(n, 1) ELSE n
       IN SeqRange(LastN(sorted, len))

\* C10: count and content of a limited load (k supplied starting entries)
LimitedWant(inst, all) ==
  LET k   == inst.K
      sup == IF k = 0 THEN {} ELSE SeqRange(inst.Start) \cap all
      cnt == MinInt(MaxInt(inst.N, k), Cardinality(all))
  IN sup \cup NewestOf(inst.D, "LWW", all \ sup, cnt - Cardinality(sup))
=============================================================================
