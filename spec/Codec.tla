-------------------------------- MODULE Codec --------------------------------
(***************************************************************************)
(* Entry shapes, the signing view, the stored form and untrusted wire      *)
(* shapes (family D: C07, C08, C12).                                       *)
(*                                                                         *)
(* The universals of these properties range over bytes, which TLC cannot   *)
(* enumerate.  This module states them over ABSTRACT values - a payload is *)
(* a short sequence of symbols, each standing for a class of bytes - with  *)
(* an ideal signature (a signature is the triple <<signed view, key>> and  *)
(* verifies iff it matches), so that "tamper evident" is exactly           *)
(* "the map from an entry's signed parts to its signing view is            *)
(* injective".  TLC (a) checks that on the model of the signing view the   *)
(* code implements (entry.go toBuffer / ToHashable) and (b) enumerates the *)
(* obligation matrices: each obligation is exported as JSON, concretised   *)
(* with real bytes by the harness and evaluated on the real code;          *)
(* Trace_Codec.tla validates the observed verdicts.                        *)
(***************************************************************************)
EXTENDS Integers, Sequences, FiniteSets, TLC, Json

CONSTANTS MaxLen,      \* payload length bound (symbols)
          Pairwise     \* C12: also all pairs of field deviations

(***************************************************************************)
(* Payload symbols (classes of bytes)                                      *)
(*   a b  plain ASCII letters         q  JSON-special / HTML char (" \ < &)*)
(*   u    a multi-byte UTF-8 char     r  the valid char U+FFFD             *)
(*   x y  bytes that are not valid UTF-8 (two different ones)  z  NUL      *)
(***************************************************************************)
Sym == {"a", "b", "q", "u", "r", "x", "y", "z"}
Payloads == UNION {[1..n -> Sym] : n \in 0..MaxLen}

\* toBuffer signs json.Marshal(string(payload)): every byte that is not valid UTF-8 is written as the
\* escape \ufffd (a genuine U+FFFD character is written as its three bytes, so it stays distinct)
SignedSym(s) == IF s \in {"x", "y"} THEN "FFFD-escape" ELSE s
SignedPayload(p) == [i \in 1..Len(p) |-> SignedSym(p[i])]

Links == {"c1", "c2", "c3"}
LinkSeqs == UNION {[1..n -> Links] : n \in 0..2}

\* an abstract entry: every part the signature is supposed to cover, plus key and sig
\* ctb: magnitude class of the clock time (the real time is base(ctb) + ct; "big53" = 2^53, "big62" = 2^62: integers that a
\* float64 cannot all represent - the signing view must bind the exact integer)
Entries ==
  \* every payload with fixed links, and every link shape with a fixed payload
  [payload : Payloads, id : {"X"}, next : {<<"c1">>}, refs : {<<"c3">>}, v : {2}, cid : {"k1"}, ct : {5}, ctb : {"small"}, key : {"k1"}, penc : {"raw"}]
  \cup [payload : {<<"a", "u">>}, id : {"X"}, next : {<<>>, <<"c1">>, <<"c1", "c2">>}, refs : {<<>>, <<"c3">>, <<"c3", "c1">>},
         v : {2}, cid : {"k1"}, ct : {5}, ctb : {"small"}, key : {"k1"}, penc : {"raw"}]
  \cup [payload : {<<"a", "u">>}, id : {"X"}, next : {<<"c1">>}, refs : {<<"c3">>}, v : {2}, cid : {"k1"}, ct : {5, 6},
         ctb : {"big53", "big62"}, key : {"k1"}, penc : {"raw"}]

SignedView(e) ==
  [payload |-> SignedPayload(e.payload), id |-> e.id, next |-> e.next, refs |-> e.refs, v |-> e.v,
   cid |-> e.cid, ct |-> e.ct, ctb |-> e.ctb, penc |-> e.penc]

\* ideal signature scheme: unforgeable and deterministic
Sign(e) == <<SignedView(e), e.key>>
Verifies(e, sig) == sig = <<SignedView(e), e.key>>

(***************************************************************************)
(* C07: single-part modifications                                          *)
(***************************************************************************)
EditsOfPayload(p) ==
  {q \in Payloads : q # p /\
      \/ Len(q) = Len(p) /\ Cardinality({i \in 1..Len(p) : p[i] # q[i]}) = 1      \* one symbol replaced
      \/ Len(q) = Len(p) + 1 /\ SubSeq(q, 1, Len(p)) = p                          \* one appended
      \/ Len(q) + 1 = Len(p) /\ SubSeq(p, 1, Len(q)) = q}                         \* truncated by one
EditsOfLinks(s) == {t \in LinkSeqs : t # s}

\* penc: the payload bytes are those of the symbols ("raw"), or a textual re-encoding of them - the payload REPLACED by
\* its own base64 / hex / JSON-escaped text is a different payload and must not verify under the original signature
PayloadEncodings == {"base64", "hex", "jsonstring", "urlbase64"}
Mutants(e) ==
  {[f |-> "payload", e2 |-> [e EXCEPT !.payload = q]] : q \in EditsOfPayload(e.payload)}
  \cup {[f |-> "payload", e2 |-> [e EXCEPT !.penc = x]] : x \in (IF e.payload = <<>> THEN {} ELSE PayloadEncodings)}
  \cup {[f |-> "id", e2 |-> [e EXCEPT !.id = "Y"]]}
  \cup {[f |-> "next", e2 |-> [e EXCEPT !.next = t]] : t \in EditsOfLinks(e.next)}
  \cup {[f |-> "refs", e2 |-> [e EXCEPT !.refs = t]] : t \in EditsOfLinks(e.refs)}
  \cup {[f |-> "v", e2 |-> [e EXCEPT !.v = w]] : w \in {0, 1}}
  \cup {[f |-> "clock.id", e2 |-> [e EXCEPT !.cid = "k2"]]}
  \cup {[f |-> "clock.time", e2 |-> [e EXCEPT !.ct = t]] : t \in {4, 6, 7, 0} \ {e.ct}}
  \cup {[f |-> "key", e2 |-> [e EXCEPT !.key = "k2"]]}

\* the obligation: the original verifies, the mutant (carrying the original signature) does not
C07Obligations ==
  UNION {{[k |-> "c07", e |-> e, f |-> m.f, e2 |-> m.e2] : m \in Mutants(e)} : e \in Entries}

C07_Detected(o) == Verifies(o.e, Sign(o.e)) /\ ~Verifies(o.e2, Sign(o.e))

\* signature substitutions (the signed parts are untouched)
SigKinds == {"other_entry", "bitflip", "truncated", "empty"}

(***************************************************************************)
(* C08: shapes whose stored form must decode to the same entry             *)
(***************************************************************************)
PayloadClasses == {"empty", "ascii", "jsonspecial", "multibyte", "invalidutf8", "nul", "binary256", "long"}
LinkShapes == {"nil", "empty", "one", "two"}
ClockClasses == {"zero", "small", "big31", "maxint"}
\* ident: "dev1" / "dev2" are two identities of the same user id (same id, different signing key and signatures)
\* via: "create" = through CreateEntry (which normalises the link lists), "direct" = a signed entry object assembled by
\* the caller and written with ToMultihash as it is (a nil list is stored as null, an empty one as an empty array)
C08Shapes ==
  [k : {"c08"}, payload : PayloadClasses, next : LinkShapes, refs : LinkShapes, clock : ClockClasses,
   codec : {"cbor", "cbor+lk1"}, ident : {"dev1", "dev2"}, via : {"create"}]
  \cup [k : {"c08"}, payload : PayloadClasses, next : LinkShapes, refs : LinkShapes, clock : ClockClasses,
        codec : {"cbor"}, ident : {"dev1"}, via : {"direct"}]

\* what decoding the stored form must give back: everything but the hash, refs only for v > 1,
\* nil and empty lists identified
Norm(shape) == [shape EXCEPT !.next = IF @ = "nil" THEN "empty" ELSE @, !.refs = IF @ = "nil" THEN "empty" ELSE @]

(***************************************************************************)
(* C12: structurally valid encodings with fields absent, null or of the    *)
(* wrong type                                                              *)
(***************************************************************************)
EntryFields == {"v", "id", "key", "sig", "next", "refs", "clock", "payload", "identity", "hash",
                "clock.id", "clock.time", "identity.id", "identity.publicKey", "identity.signatures", "identity.type",
                "identity.signatures.id", "identity.signatures.publicKey"}
ManifestFields == {"id", "heads"}
Deviations == {"absent", "null", "wrongtype", "badvalue"}
Single(kind, fields) == {[k |-> "c12", obj |-> kind, devs |-> {[f |-> f, d |-> d]}] : f \in fields, d \in Deviations}
Pairs(kind, fields) ==
  {[k |-> "c12", obj |-> kind, devs |-> {[f |-> fp[1], d |-> d1], [f |-> fp[2], d |-> d2]}] :
      fp \in {p \in fields \X fields : p[1] # p[2]}, d1 \in Deviations, d2 \in Deviations}
C12Obligations ==
  Single("entry", EntryFields) \cup Single("manifest", ManifestFields) \cup Single("entryv0", {"v", "id", "key", "sig", "next", "clock", "payload", "hash"})
  \cup {[k |-> "c12", obj |-> "entry", devs |-> {}], [k |-> "c12", obj |-> "manifest", devs |-> {}]}
  \cup Pairs("manifest", ManifestFields)                       \* both manifest fields deviating at once (always: 2 fields only)
  \cup (IF Pairwise THEN Pairs("entry", EntryFields) ELSE {})

\* blocks of a link-encrypting log: the sealed side field decrypts (right key) to a CBOR map {next, refs};
\* deviations of that inner value
EncDeviations == {"emptylink", "badmultibase", "garbagelink", "wrongtype", "null", "notalist", "truncated", "valid"}
C12EncObligations == {[k |-> "c12enc", f |-> f, d |-> d] : f \in {"next", "refs"}, d \in EncDeviations}

\* C18: every entry shape written with a link key (also shapes Append never produces: references without predecessors)
C18Shapes == [k : {"c18"}, nnext : 0..2, nrefs : 0..2, payload : {"ascii", "multibyte", "long"}, wkey : {"cbor+lk1", "cbor+lk2"}]

\* the verdict the property demands for every wire shape: an error, or an entry that is total
\* (every accessor, comparison and verification callable) - never a panic
C12Verdicts == {"error", "total"}

-----------------------------------------------------------------------------
(* TLC: one state per C07 obligation (checked against the ideal model), and *)
(* the export of all obligation sets.                                       *)
VARIABLE ob
Init == ob \in C07Obligations
Next == UNCHANGED ob
Spec == Init /\ [][Next]_ob

C07_TamperEvident == C07_Detected(ob)

ExportC07 == PrintT("OB " \o ToJson(ob))
ExportAll ==
  /\ \A s \in C08Shapes : PrintT("OB " \o ToJson(s))
  /\ \A o \in C12Obligations : PrintT("OB " \o ToJson(o))
  /\ \A o \in C12EncObligations : PrintT("OB " \o ToJson(o))
  /\ \A o \in C18Shapes : PrintT("OB " \o ToJson(o))
  /\ \A k \in SigKinds : PrintT("OB " \o ToJson([k |-> "c07sig", kind |-> k]))
=============================================================================
