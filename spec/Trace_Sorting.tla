---------------------------- MODULE Trace_Sorting ----------------------------
(***************************************************************************)
(* Validation of what the real comparators and sorting.Sort returned.      *)
(* Records (after the header):                                             *)
(*  k = "tri":  a, b, c rank triples and, per comparator, the observed     *)
(*              signs  ab ba bc cb ac ca aa                                *)
(*  k = "sort": fn, rev, wrapped, items (rank triples), out1, out2         *)
(*              (positions 1..n of items as returned by two executions)    *)
(* The header states K and the number of palettes, so that TraceComplete   *)
(* can demand the whole cube of triples for every palette.                 *)
(***************************************************************************)
EXTENDS LogOps, TLC, Json

CONSTANT TraceFile
Trace == ndJsonDeserialize(TraceFile)
Hdr   == Trace[1]
NRec  == Len(Trace) - 1
Rec(i) == Trace[i + 1]

VARIABLES l, ph
vars == <<l, ph>>
Init == l \in 1..NRec /\ ph = "pre"
Next == ph = "pre" /\ ph' = "post" /\ l' = l
Spec == Init /\ [][Next]_vars

ev == Rec(l)
IsTri  == ev.k = "tri"
IsSort == ev.k = "sort"
O(fn) == ev.obs[fn]          \* record of observed signs for comparator fn

H_WellFormed ==
  /\ ev.k \in {"tri", "sort"}
  /\ ~ev.herr

\* ---- Layer P: laws on the observed signs -------------------------------
distinctAB == ev.a # ev.b
distinctBC == ev.b # ev.c
distinctAC == ev.a # ev.c

StrictTotalObs(fn) ==
  /\ ~(O(fn).aa < 0)
  /\ distinctAB => O(fn).ab # 0 /\ O(fn).ab = -O(fn).ba
  /\ distinctBC => O(fn).bc # 0 /\ O(fn).bc = -O(fn).cb
  /\ distinctAC => O(fn).ac # 0 /\ O(fn).ac = -O(fn).ca
  /\ (O(fn).ab < 0 /\ O(fn).bc < 0) => O(fn).ac < 0
  /\ (O(fn).ab > 0 /\ O(fn).bc > 0) => O(fn).ac > 0

\* irreflexive on ENTRIES, whatever object holds them: two objects with the same clock and the same hash are one entry
\* (a copy read back from the store, a replica's copy), and neither is ordered before the other
IrreflexiveObs(fn) ==
  /\ O(fn).aa = 0
  /\ ~distinctAB => O(fn).ab = 0 /\ O(fn).ba = 0
  /\ ~distinctBC => O(fn).bc = 0 /\ O(fn).cb = 0
  /\ ~distinctAC => O(fn).ac = 0 /\ O(fn).ca = 0
C19_HashStrictTotal == IsTri => StrictTotalObs("HASH") /\ IrreflexiveObs("HASH")

ClocksDistinct(x, y) == x.t # y.t \/ x.w # y.w
C19_LwwIsHashWhenClocksDistinct ==
  IsTri =>
    /\ ClocksDistinct(ev.a, ev.b) => O("LWW").ab = O("HASH").ab /\ O("LWW").ba = O("HASH").ba
    /\ ClocksDistinct(ev.b, ev.c) => O("LWW").bc = O("HASH").bc
    /\ ClocksDistinct(ev.a, ev.c) => O("LWW").ac = O("HASH").ac

C19_ClockCompareLawful ==
  IsTri => \A fn \in {"CLOCK", "CLK"} :
    /\ O(fn).ab = -O(fn).ba /\ O(fn).bc = -O(fn).cb /\ O(fn).ac = -O(fn).ca
    /\ O(fn).aa = 0
    /\ (O(fn).ab = 0) = ~ClocksDistinct(ev.a, ev.b)
    /\ (O(fn).ab < 0 /\ O(fn).bc < 0) => O(fn).ac < 0
    /\ (O(fn).ab <= 0 /\ O(fn).bc <= 0) => O(fn).ac <= 0

C19_RespectsTime ==
  IsTri => \A fn \in {"HASH", "LWW", "CLK", "CLOCK"} :
    /\ ev.a.t < ev.b.t => O(fn).ab < 0 /\ O(fn).ba > 0
    /\ ev.b.t < ev.c.t => O(fn).bc < 0
    /\ ev.a.t < ev.c.t => O(fn).ac < 0

C19_FwwReversesLww ==
  IsTri => /\ O("FWW").ab = -O("LWW").ab /\ O("FWW").ba = -O("LWW").ba
           /\ O("FWW").bc = -O("LWW").bc /\ O("FWW").ac = -O("LWW").ac /\ O("FWW").aa = -O("LWW").aa

\* errors: the NoZeroes wrapper reports an error exactly when the wrapped comparator says 0
C19_NoZeroes ==
  IsTri => \A fn \in {"HASH", "LWW"} : (O(fn).abz = (O(fn).ab = 0)) /\ (O(fn).aaz = (O(fn).aa = 0))

U == ev.items
C19_SortIsPermutation ==
  IsSort => IsPermutationOf(ev.out1, DOMAIN ev.items) /\ ev.out1 = ev.out2
C19_SortIsOrdered ==
  IsSort =>
    \A i, j \in DOMAIN ev.out1 : i < j =>
       LET x == U[ev.out1[i]]  y == U[ev.out1[j]]  c == Cmp(ev.fn, x, y) IN
       (x # y /\ c # 0 /\ Cmp(ev.fn, y, x) = -c) => (IF ev.rev THEN c > 0 ELSE c < 0)

\* ---- Layer M: the real functions are the transcribed ones ----------------
M_Comparators ==
  IsTri => \A fn \in {"HASH", "LWW", "FWW", "CLK"} :
    /\ O(fn).ab = Sign(Cmp(fn, ev.a, ev.b)) /\ O(fn).ba = Sign(Cmp(fn, ev.b, ev.a))
    /\ O(fn).bc = Sign(Cmp(fn, ev.b, ev.c)) /\ O(fn).cb = Sign(Cmp(fn, ev.c, ev.b))
    /\ O(fn).ac = Sign(Cmp(fn, ev.a, ev.c)) /\ O(fn).ca = Sign(Cmp(fn, ev.c, ev.a))
    /\ O(fn).aa = Sign(Cmp(fn, ev.a, ev.a))
M_Clock == IsTri => O("CLOCK").ab = Sign(ClockCmp(ev.a, ev.b)) /\ O("CLOCK").ca = Sign(ClockCmp(ev.c, ev.a))
M_Sort  == IsSort => ev.out1 = SortIds(U, ev.fn, [i \in 1..Len(ev.items) |-> i], ev.rev)

\* every record walked, and the enumeration is the complete cube for every palette
TraceAccepted == TLCGet("stats").distinct = 2 * NRec
=============================================================================
