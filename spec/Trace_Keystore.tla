--------------------------- MODULE Trace_Keystore ---------------------------
(***************************************************************************)
(* Validation of keystore / identity traces recorded from the real code.   *)
(* One record per call: op, instance, id, what the call returned, and the  *)
(* ground truth kept by the driver: the ids created so far (present), the  *)
(* fingerprint each key had when it was created (wantfp), the fingerprint  *)
(* of the identity first created for the id (firstident).                  *)
(***************************************************************************)
EXTENDS Integers, Sequences, FiniteSets, TLC, Json

CONSTANT TraceFile
Trace == ndJsonDeserialize(TraceFile)
NRec  == Len(Trace) - 1
Rec(i) == Trace[i + 1]

VARIABLES l, ph
vars == <<l, ph>>
Init == l \in 1..NRec /\ ph = "pre"
Next == ph = "pre" /\ ph' = "post" /\ l' = l
Spec == Init /\ [][Next]_vars

ev == Rec(l)
H_WellFormed == ~ev.herr /\ ev.op \in {"C", "G", "H", "E", "O", "I"}

\* a key once created is reported present by every instance, also after eviction and restart
C20_HasIsPresent  == ev.op = "H" /\ ev.present => ev.found /\ ev.err = ""
\* ... and returned identically
C20_GetIsStable   == ev.op = "G" /\ ev.present => ev.err = "" /\ ev.keyfp = ev.wantfp /\ ev.keyfp # 0
\* an id that was never created is reported absent
C20_AbsentIsAbsent ==
  /\ ev.op = "H" /\ ~ev.present => ~ev.found
  /\ ev.op = "G" /\ ~ev.present => ev.err # ""
\* creating stores exactly one new key and reports it
C20_CreateStores == ev.op = "C" => ev.err = "" /\ ev.keyfp # 0 /\ ev.stored
\* identities: same id => same identity; its signatures verify under the published keys
C20_IdentityStable ==
  ev.op = "I" => ev.err = "" /\ (ev.firstident # 0 => ev.identfp = ev.firstident)
C20_SignaturesVerify ==
  ev.op = "I" => ev.idsigok /\ ev.pksigok /\ ev.entrysigok /\ ev.idiskey

\* Layer M: the datastore content follows Keystore.tla's actions
M_Store ==
  /\ ev.op \in {"G", "H", "E", "O"} => ev.ds_after = ev.ds_before
  /\ ev.op = "C" => ev.ds_after = ev.ds_before + 1
  /\ ev.op = "I" => ev.ds_after = ev.ds_before + ev.expect_new   \* the keys of {name, pub(name)} that were absent

TraceAccepted == TLCGet("stats").distinct = 2 * NRec
=============================================================================
