----------------------------- MODULE Trace_Codec -----------------------------
(***************************************************************************)
(* Validation of the verdicts the real code gave on the obligations that   *)
(* Codec.tla exported (family D: C07, C08, C12).  One record per           *)
(* (obligation, concretisation).                                           *)
(***************************************************************************)
EXTENDS Integers, Sequences, FiniteSets, TLC, Json

CONSTANT TraceFile
Trace == ndJsonDeserialize(TraceFile)
NRec  == Len(Trace) - 1
Rec(i) == Trace[i + 1]

VARIABLES l, ph
vars == <<l, ph>>
Init == l \in 1..NRec /\ ph = "pre"
Next == ph = "pre" /\ ph' = "post" /\ l' = l
Spec == Init /\ [][Next]_vars

ev == Rec(l)
H_WellFormed == ~ev.herr /\ ev.k \in {"c07", "c07sig", "c08", "c12", "c12enc", "c12raw", "c18", "vector"}

\* the signing view the code implements (same definition as in Codec.tla)
SignedSym(s) == IF s \in {"x", "y"} THEN "FFFD-escape" ELSE s
SignedPayload(p) == [i \in 1..Len(p) |-> SignedSym(p[i])]
SignedView(e) == [payload |-> SignedPayload(e.payload), id |-> e.id, next |-> e.next, refs |-> e.refs, v |-> e.v,
                  cid |-> e.cid, ct |-> e.ct]

\* ---- C07 ------------------------------------------------------------------
\* the untouched entry verifies; with any signed part changed (or key / signature substituted) it does not
C07_OriginalVerifies == ev.k \in {"c07", "c07sig"} => ev.orig_ok
C07_TamperEvident    == ev.k = "c07" /\ ~ev.same => ~ev.mut_ok
C07_SignatureBound   == ev.k = "c07sig" => ~ev.mut_ok
\* Layer M: the code accepts a modification exactly when its signing view (as modelled) does not change
M_SigningView ==
  ev.k = "c07" /\ ~ev.same =>
     (ev.mut_ok <=> (SignedView(ev.ob.e) = SignedView(ev.ob.e2) /\ ev.ob.e.key = ev.ob.e2.key))

\* ---- C08 ------------------------------------------------------------------
C08_RoundTrip     == ev.k = "c08" => ev.roundtrip /\ ev.verifyback
C08_Canonical     == ev.k = "c08" /\ ev.ob.codec = "cbor" => ev.reencode
C08_Deterministic == ev.k = "c08" => ev.determ
C08_PinnedVectors == ev.k = "vector" => ev.ok

\* ---- C12 ------------------------------------------------------------------
C12_NoPanic == ev.k \in {"c12", "c12enc", "c12raw"} => ~ev.panic

\* ---- C18 (entry shapes written directly, incl. those Append never produces) --
C18_NoClearLinks        == ev.k = "c18" => ev.clear = 0 /\ ev.nlinks = 0
C18_SameKeyRecovers     == ev.k = "c18" => ev.roundtrip /\ ev.verifyback
C18_OtherKeyGetsNothing == ev.k = "c18" => ev.nokeylinks = 0 /\ ev.otherlinks = 0

TraceAccepted == TLCGet("stats").distinct = 2 * NRec
=============================================================================
