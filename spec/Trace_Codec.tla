----------------------------- MODULE Trace_Codec -----------------------------
(***************************************************************************)
(* Validation of the verdicts the real code gave on the obligations that   *)
(* Codec.tla exported (family D: C07, C08, C12).  One record per           *)
(* (obligation, concretisation).                                           *)
(***************************************************************************)
EXTENDS Integers, Sequences, FiniteSets, TLC, Json

CONSTANT TraceFile
Trace == ndJsonDeserialize(TraceFile)
NRec  == Len(Trace) - 1
Rec(i) == Trace[i + 1]

VARIABLES l, ph
vars == <<l, ph>>
Init == l \in 1..NRec /\ ph = "pre"
Next == ph = "pre" /\ ph' = "post" /\ l' = l
Spec == Init /\ [][Next]_vars

ev == Rec(l)
H_WellFormed == ~ev.herr /\ ev.k \in {"c07", "c07sig", "c08", "c12", "c12enc", "c12raw", "c18", "vector"}

\* the signing view the code implements (same definition as in Codec.tla)
SignedSym(s) == IF s \in {"x", "y"} THEN "FFFD-escape" ELSE s
SignedPayload(p) == [i \in 1..Len(p) |-> SignedSym(p[i])]
\* a link-sealing codec signs (and stores) a copy of the entry whose link lists have lost repeated members
\* (cbor.go PreSign -> Entry.Copy -> uniqueCIDs); the first occurrences keep their order
RECURSIVE Dedup(_)
Dedup(s) == IF s = <<>> THEN <<>>
            ELSE LET d == Dedup(SubSeq(s, 1, Len(s) - 1)) IN
                 IF \E i \in 1..Len(d) : d[i] = s[Len(s)] THEN d ELSE Append(d, s[Len(s)])
Links(s, sealed) == IF sealed THEN Dedup(s) ELSE s
SignedView(e, sealed) ==
  \* (the sealed links and their nonce are signed too, and the nonce is derived from the raw payload bytes: with a
  \*  sealing codec and at least one link the invalid-UTF-8 collapse of the JSON text is not reachable)
  [payload |-> IF sealed /\ (Links(e.next, sealed) # <<>> \/ Links(e.refs, sealed) # <<>>) THEN e.payload ELSE SignedPayload(e.payload),
   id |-> e.id, next |-> Links(e.next, sealed), refs |-> Links(e.refs, sealed),
   v |-> e.v, cid |-> e.cid, ct |-> e.ct, ctb |-> e.ctb, penc |-> e.penc]
\* repeating a member changes neither the membership nor the order of a link list
SameLinks(e, e2) == Dedup(e.next) = Dedup(e2.next) /\ Dedup(e.refs) = Dedup(e2.refs)

\* ---- C07 ------------------------------------------------------------------
\* the untouched entry verifies; with any signed part changed (or key / signature substituted) it does not
C07_OriginalVerifies == ev.k \in {"c07", "c07sig"} => ev.orig_ok
\* (under the plain codec every change of the lists, repeats included, must be detected; under a sealing codec the
\*  lists exist only in the repeat-free form, so a pure repeat is not a change of a signed part)
C07_TamperEvident    == ev.k = "c07" /\ ~ev.same /\ ~(ev.sealed /\ ev.ob.f \in {"next", "refs"} /\ SameLinks(ev.ob.e, ev.ob.e2))
                           => ~ev.mut_ok
C07_SignatureBound   == ev.k = "c07sig" => ~ev.mut_ok
\* Layer M: the code accepts a modification exactly when its signing view (as modelled) does not change
M_SigningView ==
  ev.k = "c07" /\ ~ev.same =>
     (ev.mut_ok <=> (SignedView(ev.ob.e, ev.sealed) = SignedView(ev.ob.e2, ev.sealed) /\ ev.ob.e.key = ev.ob.e2.key))

\* ---- C08 ------------------------------------------------------------------
C08_RoundTrip     == ev.k = "c08" => ev.roundtrip /\ ev.verifyback
C08_Canonical     == ev.k = "c08" /\ ev.ob.codec = "cbor" => ev.reencode
C08_Deterministic == ev.k = "c08" => ev.determ
C08_PinnedVectors == ev.k = "vector" => ev.ok

\* ---- C12 ------------------------------------------------------------------
C12_NoPanic == ev.k \in {"c12", "c12enc", "c12raw"} => ~ev.panic

\* ---- C18 (entry shapes written directly, incl. those Append never produces) --
C18_NoClearLinks        == ev.k = "c18" => ev.clear = 0 /\ ev.nlinks = 0
C18_SameKeyRecovers     == ev.k = "c18" => ev.roundtrip /\ ev.verifyback
C18_OtherKeyGetsNothing == ev.k = "c18" => ev.nokeylinks = 0 /\ ev.otherlinks = 0

TraceAccepted == TLCGet("stats").distinct = 2 * NRec
=============================================================================
