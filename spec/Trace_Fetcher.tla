---------------------------- MODULE Trace_Fetcher ----------------------------
(***************************************************************************)
(* Validation of what the real fetcher / loaders did under the fetch       *)
(* scheduler.  Line 1 of the trace is the instance table; then             *)
(*   k = "step":  one event emitted under the process mutex (launch,       *)
(*                processed) with the shared state before and after it     *)
(*   k = "final": the outcome of the run (result, request log, loaded log) *)
(* Layer M: every step is the step Fetcher.tla takes from the observed     *)
(* pre-state (LaunchEffect / ProcessEffect), the first pre-state is        *)
(* InitState, and the loader's result is LoaderKeeps of the fetch result.  *)
(* Layer P: the statements of C09, C10, C11 on the outcome.                *)
(***************************************************************************)
EXTENDS FetchOps, TLC, Json

CONSTANT TraceFile
Trace == ndJsonDeserialize(TraceFile)
Hdr   == Trace[1]
NRec  == Len(Trace) - 1
Rec(i) == Trace[i + 1]

VARIABLES l, ph
vars == <<l, ph>>
Init == l \in 1..NRec /\ ph = "pre"
Next == ph = "pre" /\ ph' = "post" /\ l' = l
Spec == Init /\ [][Next]_vars

ev == Rec(l)
S(seq) == SeqRange(seq)
NoDup(seq) == Len(seq) = Cardinality(S(seq))
InstOf(name) == LET raw == Hdr.instances[name] IN [raw EXCEPT !.Excluded = S(@)]
inst == InstOf(ev.inst)
IsStep  == ev.k = "step"
IsFinal == ev.k = "final"

CacheFn(arr) == [x \in {c.id : c \in S(arr)} |-> (CHOOSE c \in S(arr) : c.id = x).kind]
St(o) == [q |-> S(o.q), cache |-> CacheFn(o.cache), res |-> o.res, minC |-> o.minC, maxC |-> o.maxC, tip |-> o.tip]

H_WellFormed == ev.k \in {"step", "final"} /\ (IsFinal => ~ev.herr)

\* ---- Layer M -------------------------------------------------------------
M_Init == IsStep /\ ev.seq = 1 => St(ev.pre) = InitState(inst)
M_Launch ==
  IsStep /\ ev.kind = "launch" =>
     \E x \in St(ev.pre).q :
        /\ x.id = ev.h
        /\ x \in Poppable(St(ev.pre).q)              \* container/heap pops a minimum-priority item
        /\ St(ev.post) = LaunchEffect(St(ev.pre), x)
M_Process ==
  IsStep /\ ev.kind = "processed" =>
     /\ ev.h \in DOMAIN St(ev.pre).cache                 \* only something that was launched can be processed
     /\ St(ev.post) = ProcessEffect(inst, St(ev.pre), ev.h, ev.ok)
M_Chain == IsStep /\ ev.seq > 1 => (Rec(l - 1).k = "step" /\ Rec(l - 1).run = ev.run => Rec(l - 1).post = ev.pre)
Sources == IF inst.Kind = "entry" THEN S(inst.Start) ELSE {}
M_Loader ==
  IsFinal /\ ev.returned /\ ~ev.panic /\ ev.haslog /\ ev.err = "" =>
     S(ev.loaded.ents) = LoaderKeeps(inst.D, inst.Kind, ev.res, inst.N, inst.Start)

\* a loader that is given entries only derives the heads as the entries no other loaded entry names as predecessor
\* (next only - skip references do not count); the manifest loader keeps the listed heads it could load
M_LoadedHeads ==
  IsFinal /\ ev.returned /\ ~ev.panic /\ ev.haslog /\ ev.err = "" =>
     IF inst.Kind = "mh" THEN S(ev.loaded.heads) = S(inst.Start) \cap S(ev.loaded.ents)
     ELSE S(ev.loaded.heads) = MaximalOf(inst.D, S(ev.loaded.ents))

\* every admitted entry is signalled on the progress channel, once, in admission order
M_Progress == IsFinal /\ ev.returned /\ ~ev.panic => ev.progress = ev.res

\* ---- Layer P -------------------------------------------------------------
ReachAll == Reach(inst) \cup Sources
Ents == IF inst.Kind = "fetch" THEN S(ev.result) ELSE S(ev.loaded.ents)
Completed == IsFinal /\ ev.returned /\ ~ev.panic /\ (inst.Kind = "fetch" \/ ev.haslog)

\* C11
C11_Terminates   == IsFinal => ev.returned /\ ~ev.hung /\ ~ev.panic
C11_NoDupResult  == IsFinal => NoDup(ev.result) /\ NoDup(ev.res)
C11_NoDupRequest == IsFinal => NoDup(ev.reqs)
C11_NoExcludedRequest == IsFinal => S(ev.reqs) \cap inst.Excluded = {}
C11_ConcurrencyBound  == IsFinal => ev.maxgets <= inst.Conc
\* with a configured timeout the load returns within it (15 s of slack: the checks may run on a heavily loaded machine)
C11_WithinTimeout == IsFinal /\ inst.RealTimeout > 0 => ev.returned /\ ev.elapsed_ms <= inst.RealTimeout + 15000
C11_WithinReach  == Completed => Ents \subseteq ReachAll /\ S(ev.res) \subseteq Reach(inst)
C11_ExactReach   == Completed /\ inst.N < 0 /\ ~ev.timedout /\ inst.RealTimeout = 0 => S(ev.res) = Reach(inst) /\ Ents = ReachAll
\* a loader never fails because of faulty blocks: it returns what is reachable
C11_FaultsAreSkipped ==
  IsFinal /\ ev.returned /\ ~ev.panic /\ inst.Kind # "fetch" /\ ~ev.timedout /\ inst.RealTimeout = 0 /\ ReachAll # {}
     => ev.haslog /\ ev.err = ""

\* C09: an unlimited reload of an intact store gives back the original log
C09Scope == Completed /\ inst.Kind # "fetch" /\ inst.N < 0 /\ AllOk(inst) /\ inst.Excluded = {} /\ ~ev.timedout
              /\ (inst.Kind = "entryhash" => Len(inst.Orig.heads) = 1)
C09_ReloadEqual ==
  C09Scope =>
     /\ S(ev.loaded.ents) = S(inst.Orig.ents)
     /\ NoDup(ev.loaded.ents)
     /\ S(ev.loaded.heads) = S(inst.Orig.heads)
     /\ ev.loaded.lid = inst.Orig.lid
     /\ StrictOn(inst.D, inst.Fn, S(inst.Orig.ents)) => ev.loaded.values = inst.Orig.values

\* C10: a limited load keeps exactly the newest entries (plus the supplied ones), whatever the schedule
C10Scope == Completed /\ inst.Kind # "fetch" /\ inst.N >= 0 /\ AllOk(inst) /\ inst.Excluded = {} /\ ~ev.timedout
              /\ StrictOn(inst.D, "LWW", ReachAll)
C10_Count   == C10Scope => Cardinality(S(ev.loaded.ents)) = MinInt(MaxInt(inst.N, inst.K), Cardinality(ReachAll))
                            /\ NoDup(ev.loaded.ents)
C10_Content == C10Scope => S(ev.loaded.ents) = LimitedWant(inst, ReachAll)

TraceAccepted == TLCGet("stats").distinct = 2 * NRec
=============================================================================
