------------------------------- MODULE LogConc -------------------------------
(***************************************************************************)
(* Logs shared between goroutines (family K: C13, C14).                    *)
(*                                                                         *)
(* Phase "setup": a short sequential history builds the logs (the actions  *)
(* of IpfsLog.tla).  Phase "conc": a set of operations is issued           *)
(* concurrently, one goroutine each.  A goroutine advances in steps; a     *)
(* step is what the code does between two yield points (the verif hooks    *)
(* on entry of every public operation, and Join's hook between reading the *)
(* source and locking the destination):                                    *)
(*   Append, reads, SetIdentity  one step: the whole call, atomic under    *)
(*                               the log's lock                            *)
(*   Join(dst, src)              step 1: early returns, atomic snapshot of *)
(*                                       the source under ITS read lock    *)
(*                               step 2: validate + apply under the        *)
(*                                       destination's write lock          *)
(*   RawHeads, result kept       step 1: the call; step 2: the caller reads *)
(*                               what it was handed                        *)
(*   ToMultihash                 step 1: enter; step 2: RawHeads (empty    *)
(*                               log => error); step 3: ToJSONLog + write  *)
(* No step takes a lock of one log while holding a lock of another, and    *)
(* every step releases what it takes: nothing ever waits for a lock held   *)
(* across a yield point, so every interleaving of steps is a behaviour and *)
(* no behaviour deadlocks (the repaired design; the pinned code held the   *)
(* destination's write lock while calling the source's accessors).         *)
(***************************************************************************)
EXTENDS LogOps, TLC, Json

CONSTANTS
  NL,        \* logs 1..NL (all with the same log id)
  Writer0,   \* writer of each log
  Fn,
  MaxE,
  MaxSetup,  \* length of the sequential setup history
  FixedSetup,\* if non-empty: the setup history is exactly this sequence of <<"A", r, 1>> / <<"J", r, s>> ops
  Menu,      \* set of operation records offered to the concurrent phase
  NProcs,    \* number of concurrently issued operations
  Distinct   \* TRUE: the goroutines run pairwise different operations of the menu

VARIABLES U, ents, heads, nidx, clk, ident,
          phase,   \* "setup" | "conc"
          procs,   \* sequence of operation records
          pc,      \* per goroutine: number of steps taken; 0 = parked at its first yield point
          fin,     \* per goroutine: finished
          snap,    \* per goroutine: the source snapshot a Join took in step 1
          ret,     \* per goroutine: what the call returned (entry id / read projection / error flag)
          began,   \* per goroutine: global step count when it took its first step (0 = not yet)
          ended,   \* per goroutine: global step count when it finished
          steps,   \* global step counter of the concurrent phase
          hist     \* [setup |-> seq of ops, sched |-> seq of goroutine indices]

vars == <<U, ents, heads, nidx, clk, ident, phase, procs, pc, fin, snap, ret, began, ended, steps, hist>>
logv == <<U, ents, heads, nidx, clk, ident>>

L == 1..NL
St(r)  == [ents |-> ents[r], heads |-> heads[r], nidx |-> nidx[r], clk |-> clk[r]]
Src(s) == [ents |-> ents[s], heads |-> heads[s]]

Init ==
  /\ U = <<>>
  /\ ents = [r \in L |-> {}] /\ heads = [r \in L |-> <<>>] /\ nidx = [r \in L |-> {}]
  /\ clk = [r \in L |-> 0] /\ ident = [r \in L |-> Writer0[r]]
  /\ phase = "setup" /\ procs = <<>> /\ pc = <<>> /\ fin = <<>> /\ snap = <<>> /\ ret = <<>>
  /\ began = <<>> /\ ended = <<>> /\ steps = 0
  /\ hist = [setup |-> <<>>, sched |-> <<>>]

\* ---- the effects on a log (shared with IpfsLog.tla through LogOps) ------
DoAppend(r, pcnt) ==
  LET p  == AppendPlan(U, Fn, St(r), pcnt)
      e  == [w |-> ident[r], t |-> p.t, next |-> p.next, refs |-> p.refs, h |-> Len(U) + 1, lid |-> "X"]
      id == Len(U) + 1
  IN /\ U' = Append(U, e)
     /\ ents'  = [ents EXCEPT ![r] = @ \cup {id}]
     /\ heads' = [heads EXCEPT ![r] = <<id>>]
     /\ nidx'  = [nidx EXCEPT ![r] = @ \cup SeqRange(e.next)]
     /\ clk'   = [clk EXCEPT ![r] = e.t]
     /\ UNCHANGED ident

DoApply(r, src) ==
  LET j == JoinResult(U, Fn, St(r), src, "X", -1)
  IN /\ ents'  = [ents EXCEPT ![r] = j.ents]
     /\ heads' = [heads EXCEPT ![r] = j.heads]
     /\ nidx'  = [nidx EXCEPT ![r] = j.nidx]
     /\ clk'   = [clk EXCEPT ![r] = j.clk]
     /\ UNCHANGED <<U, ident>>

\* ---- setup phase ----------------------------------------------------------
SetupAllowed(o) ==
  IF FixedSetup = <<>> THEN Len(hist.setup) < MaxSetup
  ELSE Len(hist.setup) < Len(FixedSetup) /\ FixedSetup[Len(hist.setup) + 1] = o
SetupOver == FixedSetup = <<>> \/ Len(hist.setup) = Len(FixedSetup)

SetupAppend(r) ==
  /\ phase = "setup" /\ SetupAllowed(<<"A", r, 1>>) /\ Len(U) < MaxE
  /\ DoAppend(r, 1)
  /\ hist' = [hist EXCEPT !.setup = Append(@, <<"A", r, 1>>)]
  /\ UNCHANGED <<phase, procs, pc, fin, snap, ret, began, ended, steps>>

SetupJoin(r, s) ==
  /\ phase = "setup" /\ SetupAllowed(<<"J", r, s>>) /\ r # s
  /\ DoApply(r, Src(s))
  /\ hist' = [hist EXCEPT !.setup = Append(@, <<"J", r, s>>)]
  /\ UNCHANGED <<phase, procs, pc, fin, snap, ret, began, ended, steps>>

\* issue NProcs operations from the menu (as a sequence: goroutine i runs ops[i])
Spawn(ops) ==
  /\ phase = "setup" /\ SetupOver
  /\ phase' = "conc"
  /\ procs' = ops
  /\ pc'    = [i \in DOMAIN ops |-> 0]
  /\ fin'   = [i \in DOMAIN ops |-> FALSE]
  /\ snap'  = [i \in DOMAIN ops |-> <<>>]
  /\ ret'   = [i \in DOMAIN ops |-> [k |-> "none"]]
  /\ began' = [i \in DOMAIN ops |-> 0]
  /\ ended' = [i \in DOMAIN ops |-> 0]
  /\ UNCHANGED <<logv, steps, hist>>

\* ---- concurrent phase -----------------------------------------------------
Proj(r) == [k |-> "state", ents |-> ents[r], heads |-> SeqRange(heads[r]),
            values |-> ValuesOf(U, Fn, ents[r], heads[r])]

Finish(i, rv) ==
  /\ fin' = [fin EXCEPT ![i] = TRUE]
  /\ ret' = [ret EXCEPT ![i] = rv]
  /\ ended' = [ended EXCEPT ![i] = steps + 1]

Stay(i) == /\ UNCHANGED <<fin, ret, ended>>

Step(i) ==
  /\ phase = "conc" /\ ~fin[i]
  /\ LET o == procs[i] IN
     CASE o.op = "A" ->
            /\ Len(U) < MaxE + NProcs
            /\ DoAppend(o.r, o.n)
            /\ Finish(i, [k |-> "entry", id |-> Len(U) + 1])
            /\ UNCHANGED snap
       [] o.op = "J" /\ pc[i] = 0 ->
            IF o.r = o.s
            THEN /\ Finish(i, [k |-> "ok"]) /\ UNCHANGED <<logv, snap>>
            ELSE /\ snap' = [snap EXCEPT ![i] = Src(o.s)]          \* atomic under the source's read lock
                 /\ Stay(i) /\ UNCHANGED logv
       [] o.op = "J" /\ pc[i] = 1 ->
            /\ DoApply(o.r, snap[i])
            /\ Finish(i, [k |-> "ok"])
            /\ UNCHANGED snap
       [] o.op = "R" /\ o.acc # "RawHeadsHeld" ->
            /\ Finish(i, Proj(o.r))
            /\ UNCHANGED <<logv, snap>>
       \* a caller that keeps what RawHeads() handed out and looks at it later: it still is what it was
       [] o.op = "R" /\ o.acc = "RawHeadsHeld" /\ pc[i] = 0 ->
            /\ snap' = [snap EXCEPT ![i] = Src(o.r)]
            /\ Stay(i) /\ UNCHANGED logv
       [] o.op = "R" /\ o.acc = "RawHeadsHeld" /\ pc[i] = 1 ->
            /\ Finish(i, [k |-> "state", ents |-> snap[i].ents, heads |-> SeqRange(snap[i].heads),
                          values |-> ValuesOf(U, Fn, snap[i].ents, snap[i].heads)])
            /\ UNCHANGED <<logv, snap>>
       [] o.op = "P" /\ pc[i] = 0 -> Stay(i) /\ UNCHANGED <<logv, snap>>
       [] o.op = "P" /\ pc[i] = 1 ->
            IF heads[o.r] = <<>>
            THEN Finish(i, [k |-> "error"]) /\ UNCHANGED <<logv, snap>>
            ELSE Stay(i) /\ UNCHANGED <<logv, snap>>
       [] o.op = "P" /\ pc[i] = 2 ->
            /\ Finish(i, [k |-> "manifest", heads |-> SeqRange(heads[o.r])])
            /\ UNCHANGED <<logv, snap>>
       [] o.op = "SI" ->
            /\ ident' = [ident EXCEPT ![o.r] = o.n]
            /\ clk' = [clk EXCEPT ![o.r] = MaxInt(@, MaxTimeOf(U, heads[o.r], 0))]
            /\ Finish(i, [k |-> "ok"])
            /\ UNCHANGED <<U, ents, heads, nidx, snap>>
  /\ pc' = [pc EXCEPT ![i] = @ + 1]
  /\ began' = [began EXCEPT ![i] = IF @ = 0 THEN steps + 1 ELSE @]
  /\ steps' = steps + 1
  /\ hist' = [hist EXCEPT !.sched = Append(@, i)]
  /\ UNCHANGED <<phase, procs>>

OpSeqs == IF Distinct THEN {f \in [1..NProcs -> Menu] : \A i, j \in 1..NProcs : i # j => f[i] # f[j]}
          ELSE [1..NProcs -> Menu]

Next ==
  \/ \E r \in L : SetupAppend(r)
  \/ \E r, s \in L : SetupJoin(r, s)
  \/ \E ops \in OpSeqs : Spawn(ops)
  \/ \E i \in DOMAIN procs : Step(i)

Spec == Init /\ [][Next]_vars /\ WF_vars(\E i \in DOMAIN procs : Step(i))

AllDone == phase = "conc" /\ \A i \in DOMAIN procs : fin[i]
View == <<logv, phase, procs, pc, fin, snap, ret, began, ended, steps, hist.setup>>
Export == IF AllDone THEN PrintT("HIST " \o ToJson([setup |-> hist.setup, procs |-> procs, sched |-> hist.sched])) ELSE TRUE

-----------------------------------------------------------------------------
\* C13 / C14 at design level
Vals(r) == ValuesOf(U, Fn, ents[r], heads[r])
StructOK(e, h, v) ==
  /\ h = MaximalOf(U, e)
  /\ IsPermutationOf(v, e)
  /\ \A a, b \in DOMAIN v : a < b => v[b] \notin PastOf(U, v[a])

\* every log is structurally sound after every step, and so is everything a read returned
C13_StateConsistent == \A r \in L : StructOK(ents[r], SeqRange(heads[r]), Vals(r))
C13_ReadsConsistent ==
  phase = "conc" => \A i \in DOMAIN procs : ret[i].k = "state" => StructOK(ret[i].ents, ret[i].heads, ret[i].values)

\* appends on one log are serialised into one chain: one that completed before another began is in its past
C13_AppendsFormChain ==
  phase = "conc" => \A i, j \in DOMAIN procs :
     (procs[i].op = "A" /\ procs[j].op = "A" /\ procs[i].r = procs[j].r /\ fin[i] /\ fin[j] /\ ended[i] < began[j])
        => ret[i].id \in PastOf(U, ret[j].id)
C13_ExactlyOnce ==
  AllDone => \A i, j \in DOMAIN procs : (i # j /\ procs[i].op = "A" /\ procs[j].op = "A") => ret[i].id # ret[j].id
\* every goroutine eventually finishes
C13_NoDeadlock == <>[](phase = "conc" => AllDone) \/ <>[](phase = "setup")

\* C14: a finished join holds the union with the snapshot it took, its heads are entries
C14_HeadsInEnts == \A r \in L : SeqRange(heads[r]) \subseteq ents[r]
C14_SnapshotIncluded ==
  phase = "conc" => \A i \in DOMAIN procs :
     (procs[i].op = "J" /\ fin[i] /\ procs[i].r # procs[i].s) => snap[i].ents \subseteq ents[procs[i].r]
=============================================================================
