---------------------------- MODULE Trace_IpfsLog ----------------------------
(***************************************************************************)
(* Validation of traces observed on the real go-ipfs-log code (family L).  *)
(*                                                                         *)
(* The trace file is ndjson: line 1 the header (configuration and the      *)
(* entry universe U produced by the run: writer rank, time, next, refs,    *)
(* hash rank of every entry), then one record per observed operation with  *)
(* the projected state of every replica before (pre) and after (post) it.  *)
(* Records with chain = TRUE continue the previous record of their script  *)
(* (pre must equal that record's post).                                    *)
(*                                                                         *)
(* Behaviours of this module: one two-state behaviour  pre -> post  per    *)
(* record.  Layer P = the property predicates (names C<nn>_...), evaluated *)
(* as invariants on both observed states and as action properties on the   *)
(* observed transition.  Layer M = conformance with the transcriptions of  *)
(* LogOps.tla (names M_...): the observed transition must be the one the   *)
(* specification's action computes from the observed pre-state.            *)
(***************************************************************************)
EXTENDS LogOps, TLC, Json

CONSTANT TraceFile

Trace == ndJsonDeserialize(TraceFile)
Hdr   == Trace[1]
NRec  == Len(Trace) - 1
Rec(i) == Trace[i + 1]

UU  == Hdr.U                 \* sequence = function id -> entry record
Fn  == Hdr.cfg.Fn
NR  == Hdr.cfg.NR
R   == 1..NR

VARIABLES l, ph
vars == <<l, ph>>

Init == l \in 1..NRec /\ ph = "pre"
Step == ph = "pre" /\ ph' = "post" /\ l' = l
Next == Step
Spec == Init /\ [][Next]_vars

\* the observed state of all replicas in the current TLA+ state
Obs == IF ph = "pre" THEN Rec(l).pre ELSE Rec(l).post

S(seq) == SeqRange(seq)
Abs(o) == [ents |-> S(o.ents), heads |-> o.rawheads, nidx |-> S(o.nidx), clk |-> o.clk]
NoDup(seq) == Len(seq) = Cardinality(S(seq))

ev == Rec(l)
IsStep == ph = "pre" /\ ph' = "post"

\* tampered copies a replica holds (ground truth recorded by the driver from the script)
BadIdsOf(o)  == {b.id : b \in S(o.bad)}
InvalidOf(o) == {b.id : b \in {c \in S(o.bad) : c.kind # "foreign"}}
ForeignOf(o) == {b.id : b \in {c \in S(o.bad) : c.kind = "foreign"}}
UFor(o) == [x \in DOMAIN UU |-> IF x \in ForeignOf(o) THEN [UU[x] EXCEPT !.lid = "~"] ELSE UU[x]]
DeniedBy(r) == S(Hdr.cfg.Denied[r])

-----------------------------------------------------------------------------
(* Harness sanity (never a property verdict): the trace is well formed.    *)
H_WellFormed ==
  /\ Len(ev.pre) = NR /\ Len(ev.post) = NR
  /\ \A r \in R : S(Obs[r].ents) \subseteq DOMAIN UU
  /\ \A r \in R : \A x \in S(Obs[r].ents) : UU[x].seen
  /\ ev.chain => (l > 1 /\ Rec(l - 1).sid = ev.sid /\ Rec(l - 1).post = ev.pre)
  /\ ~ev.panic \/ ev.op \in {"JB", "J", "I", "A", "AF", "F", "L"}
  /\ ~ev.herr

-----------------------------------------------------------------------------
(* Layer P - state predicates                                              *)

\* C02: heads are exactly the unreferenced entries; every accessor agrees
\* scope: pure replicas, and replicas that themselves only appended and merged without bound - whatever they merged
\* from - as long as what they hold is a causally closed set of genuine entries of their own log id
InC02(o) == o.pure \/ (o.ownpure /\ o.bad = <<>> /\ ~o.mixed /\ ClosedIn(UU, S(o.ents))
                       /\ \A x \in S(o.ents) : UU[x].lid = o.lid)
C02_HeadsAreMaximal ==
  \A r \in R : InC02(Obs[r]) => S(Obs[r].heads) = MaximalOf(UU, S(Obs[r].ents))
C02_NonEmpty ==
  \A r \in R : InC02(Obs[r]) /\ Obs[r].ents # <<>> => Obs[r].heads # <<>>
C02_HeadsInLog ==
  \A r \in R : InC02(Obs[r]) => S(Obs[r].heads) \subseteq S(Obs[r].ents)
C02_AccessorsAgree ==
  \A r \in R : LET o == Obs[r] IN
    /\ S(o.heads) = S(o.rawheads) /\ S(o.heads) = S(o.snapheads) /\ S(o.heads) = S(o.jsonheads)
    /\ NoDup(o.heads) /\ NoDup(o.rawheads) /\ NoDup(o.snapheads) /\ NoDup(o.jsonheads)
    /\ NoDup(o.ents) /\ o.len = Len(o.ents) /\ o.nilkeys = 0

\* C03: the linearisation is a causal, sorted permutation of the entries
C03_Permutation ==
  \A r \in R : Obs[r].pure =>
     /\ IsPermutationOf(Obs[r].values, S(Obs[r].ents))
     /\ Obs[r].snapvalues = Obs[r].values
C03_Causal ==
  \A r \in R : Obs[r].pure =>
    LET v == Obs[r].values IN
    \A i, j \in DOMAIN v : i < j => v[j] \notin PastOf(UU, v[i])
C03_Sorted ==
  \A r \in R : Obs[r].pure =>
    LET v == Obs[r].values IN
    \A i, j \in DOMAIN v : i < j =>
       ~(Cmp(Fn, UU[v[j]], UU[v[i]]) < 0 /\ Cmp(Fn, UU[v[i]], UU[v[j]]) > 0)

\* C01 (state form): replicas holding the same entries agree
C01_SameEntriesSameView ==
  \A r, s \in R :
    LET a == Obs[r]  b == Obs[s] IN
    a.pure /\ b.pure /\ a.lid = b.lid /\ S(a.ents) = S(b.ents) =>
       /\ S(a.heads) = S(b.heads)
       /\ StrictOn(UU, Fn, S(a.ents)) => a.values = b.values /\ a.heads = b.heads

-----------------------------------------------------------------------------
(* Layer P - action predicates (evaluated on the observed transition)      *)
pre  == ev.pre
post == ev.post
JoinSucceeded == ev.op \in {"J", "JB"} /\ ev.err = "" /\ ~ev.panic

C01_JoinIsUnion ==
  [][IsStep /\ ev.op = "J" /\ JoinSucceeded /\ ev.r # ev.s /\ pre[ev.r].lid = pre[ev.s].lid
       /\ pre[ev.r].pure /\ pre[ev.s].pure
     => S(post[ev.r].ents) = S(pre[ev.r].ents) \cup S(pre[ev.s].ents)]_vars

C01_NoOpJoins ==
  [][IsStep /\ ev.op = "J" /\ pre[ev.r].pure /\ pre[ev.s].pure
       /\ (ev.r = ev.s \/ pre[ev.r].lid # pre[ev.s].lid \/ S(pre[ev.s].ents) \subseteq S(pre[ev.r].ents))
     => /\ ev.err = "" /\ ~ev.panic
        /\ post[ev.r].ents = pre[ev.r].ents
        /\ S(post[ev.r].heads) = S(pre[ev.r].heads)
        /\ post[ev.r].values = pre[ev.r].values]_vars

\* C05: append-only
\* (a Fork replaces replica ev.r by a NEW log instance: its pre and post are different logs)
SameLog(r) == ~(ev.op \in {"F", "L"} /\ r = ev.r)
C05_EntriesMonotone ==
  [][IsStep => \A r \in R : post[r].pure /\ SameLog(r) =>
        /\ S(pre[r].ents) \subseteq S(post[r].ents)
        /\ pre[r].len <= post[r].len]_vars
C05_ValuesSubsequence ==
  [][IsStep => \A r \in R : post[r].pure /\ pre[r].pure /\ SameLog(r) /\ StrictOn(UU, Fn, S(post[r].ents)) =>
        IsSubsequence(pre[r].values, post[r].values)]_vars
DigOf(o, x) == LET i == CHOOSE k \in DOMAIN o.ents : o.ents[k] = x IN <<o.digs[i], o.getdigs[i]>>
C05_DigestsStable ==
  [][IsStep => \A r \in R : post[r].pure /\ SameLog(r) =>
        /\ \A x \in S(pre[r].ents) \cap S(post[r].ents) : DigOf(pre[r], x) = DigOf(post[r], x)
        /\ \A i \in DOMAIN post[r].ents : post[r].digs[i] = post[r].getdigs[i]]_vars
\* the same content for the same hash in every replica (no replica holds an altered copy)
\* (objects held by different logs are compared on every field but the additional data, where a link-sealing codec
\*  keeps the sealed form of the links of the entries it wrote itself - a copy decoded from the store has none)
LDigOf(o, x) == LET i == CHOOSE k \in DOMAIN o.ents : o.ents[k] = x IN o.ldigs[i]
C05_OneContentPerHash ==
  \A r, s \in R : \A x \in S(Obs[r].ents) \cap S(Obs[s].ents) : LDigOf(Obs[r], x) = LDigOf(Obs[s], x)
C05_OthersUntouched ==
  [][IsStep => \A r \in R : r # ev.r => post[r] = pre[r]]_vars
\* a log can always be rebuilt from what another log hands out (its entries and heads, or its blocks in the store)
C05_RebuildSucceeds == [][IsStep /\ ev.op \in {"F", "L"} /\ ~ev.div => ~ev.panic]_vars
\* whatever happens to one log, every other log keeps listing and returning its own entries
C05_IndexIntact ==
  \A r \in R : LET o == Obs[r] IN
     /\ NoDup(o.ents) /\ o.nilkeys = 0
     /\ \A i \in DOMAIN o.ents : o.digs[i] = o.getdigs[i] /\ o.digs[i] # 0

\* C04: the entry returned by Append
C04_Append ==
  [][IsStep /\ ev.op = "A" /\ ev.err = "" =>
       LET r == ev.r  id == ev.ret  e == UU[id] IN
       /\ id # 0
       /\ S(e.next) = S(pre[r].heads) /\ NoDup(e.next)                 \* C04_NextIsHeads
       /\ e.w = pre[r].ident /\ ev.retkey = pre[r].ident               \* C04_ClockIdIsWriter
       /\ \A x \in S(pre[r].ents) : UU[x].t < e.t                      \* C04_TimeDominates
       /\ post[r].heads = <<id>> /\ post[r].rawheads = <<id>>          \* C04_SingleHead
       /\ id \in S(post[r].ents)
       /\ S(e.refs) \subseteq PastOf(UU, id)                           \* C04_RefsInPast
       /\ S(e.refs) \cap S(e.next) = {}                                \* C04_RefsDisjointNext
       /\ NoDup(e.refs)
       /\ \A k \in 0..10 : (ev.n < 2^(k + 1)) => Len(e.refs) <= k + 2]_vars  \* C04_RefsLogBound

\* C06: denied append leaves entries and heads unchanged
C06_AppendDenied ==
  [][IsStep /\ ev.op = "A" /\ ev.err # "" =>
       /\ post[ev.r].ents = pre[ev.r].ents /\ post[ev.r].heads = pre[ev.r].heads
       /\ post[ev.r].values = pre[ev.r].values /\ ev.ret = 0]_vars
C06_DeniedWriterCannotAppend ==
  [][IsStep /\ ev.op = "A" /\ pre[ev.r].ident \in DeniedBy(ev.r) => ev.err # ""]_vars
C06_AppendedVerifies ==
  [][IsStep /\ ev.op = "A" /\ ev.err = "" => ev.retok]_vars
\* C06: a failed join leaves the destination observably unchanged
C06_AllOrNothing ==
  [][IsStep /\ ev.op \in {"J", "JB"} /\ ev.err # "" /\ ~ev.panic => post[ev.r] = pre[ev.r]]_vars
\* C06: what a join admits carries the log's id, is permitted, and is the genuine object
OrigOf(o, x) == LET i == CHOOSE k \in DOMAIN o.ents : o.ents[k] = x IN o.origdigs[i]
C06_OnlyValidAdded ==
  [][IsStep /\ ev.op \in {"J", "JB"} =>
       \A x \in S(post[ev.r].ents) \ S(pre[ev.r].ents) :
          /\ UU[x].lid = pre[ev.r].lid
          /\ UU[x].w \notin DeniedBy(ev.r)
          /\ x \notin BadIdsOf(pre[ev.s])
          /\ LDigOf(post[ev.r], x) = OrigOf(post[ev.r], x)]_vars
\* replicas the script never tampered with hold genuine objects only, and their heads are entries
C06_HonestHoldGenuine ==
  \A r \in R : Obs[r].bad = <<>> =>
     /\ \A i \in DOMAIN Obs[r].ents : Obs[r].ldigs[i] = Obs[r].origdigs[i]
     /\ S(Obs[r].heads) \subseteq S(Obs[r].ents)
     /\ ~Obs[r].mixed => \A x \in S(Obs[r].ents) : UU[x].lid = Obs[r].lid
\* for causally closed logs the candidates of a join are the source entries the destination lacks
JoinScope == IsStep /\ ev.op \in {"J", "JB"} /\ ev.r # ev.s /\ pre[ev.r].lid = pre[ev.s].lid
               /\ pre[ev.r].pure /\ pre[ev.s].pure
Missing == S(pre[ev.s].ents) \ S(pre[ev.r].ents)
C06_BadCandidateRejected ==
  [][JoinScope /\ (\E x \in Missing : x \in InvalidOf(pre[ev.s]) \/ UU[x].w \in DeniedBy(ev.r))
       => ev.err # ""]_vars
C06_ValidJoinSucceeds ==
  [][JoinScope /\ (\A x \in Missing : x \notin BadIdsOf(pre[ev.s]) /\ UU[x].w \notin DeniedBy(ev.r))
       => ev.err = "" /\ ~ev.panic]_vars

\* C16: bounded join = last n of the unbounded result, never panics
UnboundedOf(r, s) == JoinResult(UU, Fn, Abs(pre[r]), [ents |-> S(pre[s].ents), heads |-> pre[s].rawheads], pre[r].lid, -1)
C16_NoPanic == [][IsStep /\ ev.op = "JB" => ~ev.panic]_vars
C16_LastN ==
  [][IsStep /\ ev.op = "JB" /\ JoinSucceeded /\ ev.r # ev.s /\ pre[ev.r].lid = pre[ev.s].lid
       /\ pre[ev.r].pure /\ pre[ev.s].pure =>
       LET ub   == UnboundedOf(ev.r, ev.s)
           v    == ValuesOf(UU, Fn, ub.ents, ub.heads)
           k    == MinInt(ev.n, Len(v))
           want == SubSeq(v, Len(v) - k + 1, Len(v))
       IN /\ S(post[ev.r].ents) = S(want)
          /\ StrictOn(UU, Fn, ub.ents) => post[ev.r].values = want
          /\ S(post[ev.r].heads) = MaximalOf(UU, S(want))
          /\ post[ev.r].len = k]_vars

\* C15: what Iterator emitted is the requested causal range (declarative statement in LogOps)
IterOpts == [lte |-> ev.iter.lte, lt |-> ev.iter.lt, gte |-> ev.iter.gte, gt |-> ev.iter.gt, amount |-> ev.iter.amount]
IterRes  == [out |-> ev.iter.out, closed |-> ev.iter.closed, err |-> ev.iter.err, panic |-> ev.iter.panic \/ ev.iter.hung]
C15_IterMeetsSpec ==
  ph = "post" /\ ev.op = "I" /\ pre[ev.r].pure
     /\ IterInScope(UU, S(pre[ev.r].ents), S(pre[ev.r].heads), IterOpts)
  => IterMeetsSpec(UU, Fn, S(pre[ev.r].ents), S(pre[ev.r].heads), IterOpts, IterRes)

\* C17: the store is causally closed after every write, what a call returns is already stored,
\* and every handle loads - from the store as it was when the handle was returned - to the state
\* the replica had at that moment
WritesBefore(w) == {x.id : x \in {y \in S(ev.writes) : y.seq < w.seq /\ y.kind = "entry"}}
C17_StoreClosed ==
  [][IsStep => \A w \in S(ev.writes) :
        LET have == S(ev.stored) \cup WritesBefore(w) IN
        /\ w.kind = "entry" => (S(UU[w.id].next) \cup S(UU[w.id].refs)) \subseteq have /\ S(w.links) \subseteq have
        /\ w.kind = "manifest" => S(w.links) \subseteq have /\ S(w.links) = S(pre[ev.r].heads)]_vars
C17_WrittenBeforeReturned ==
  [][IsStep /\ ev.op \in {"A", "P"} /\ ev.err = "" => ev.retstored]_vars
C17_Recoverable ==
  [][IsStep => \A rc \in S(ev.recov) :
        LET o == post[rc.r] IN
        ~rc.old /\ o.pure =>
          /\ rc.err = ""
          /\ S(rc.ents) = S(o.ents) /\ NoDup(rc.ents)
          /\ S(rc.heads) = S(o.heads)
          /\ rc.lid = o.lid
          /\ StrictOn(UU, Fn, S(o.ents)) => rc.values = o.values]_vars
\* every handle an EARLIER op returned still loads to the state its log had when it was returned
C17_StillRecoverable ==
  [][IsStep => \A rc \in S(ev.recov) :
        rc.old /\ rc.wantpure =>
          /\ rc.err = ""
          /\ S(rc.ents) = S(rc.wantents) /\ NoDup(rc.ents)
          /\ S(rc.heads) = S(rc.wantheads)
          /\ rc.lid = rc.wantlid
          /\ StrictOn(UU, Fn, S(rc.wantents)) => rc.values = rc.wantvalues]_vars
\* the store after the op: every entry block still has the blocks of its predecessors and references
\* (whatever the op wrote or deleted)
C17_StoreStaysClosed ==
  [][IsStep => \A x \in S(ev.storedpost) : (S(UU[x].next) \cup S(UU[x].refs)) \subseteq S(ev.storedpost)]_vars
\* an append whose block the store refused returns an error and leaves the log as it was
C17_FailedWriteLeavesLog ==
  [][IsStep /\ ev.op = "AF" =>
       /\ ev.err # "" /\ ev.writes = <<>> /\ ev.ret = 0
       /\ post[ev.r].ents = pre[ev.r].ents /\ post[ev.r].heads = pre[ev.r].heads /\ post[ev.r].values = pre[ev.r].values]_vars
\* a publication whose block the store refused returns an error, writes nothing and leaves every log as it was
C17_FailedPublish ==
  [][IsStep /\ ev.op = "PF" => ev.err # "" /\ ev.writes = <<>> /\ ~ev.retstored /\ post = pre]_vars
\* an empty log cannot be published; a non-empty one can
C17_PublishResult ==
  [][IsStep /\ ev.op = "P" => ((ev.err = "") = (pre[ev.r].heads # <<>>)) /\ post = pre]_vars

\* C18: with a link key a stored entry block reveals no link
C18_NoClearLinks ==
  [][IsStep => \A w \in S(ev.writes) : w.audited => w.clear = <<>> /\ w.links = <<>>]_vars
C18_SameKeyRecovers ==
  [][IsStep => \A w \in S(ev.writes) : w.audited =>
        ~w.same.err /\ w.same.next = UU[w.id].next /\ w.same.refs = UU[w.id].refs /\ w.same.verify]_vars
C18_OtherKeyGetsNothing ==
  [][IsStep => \A w \in S(ev.writes) : w.audited =>
        /\ w.nokey.err \/ (w.nokey.next = <<>> /\ w.nokey.refs = <<>>)
        /\ w.other.err \/ (w.other.next = <<>> /\ w.other.refs = <<>>)]_vars
\* the audit is not vacuous: entries with links were written
C18_AuditedSomething == [][IsStep /\ ev.op = "A" /\ ev.err = "" => \E w \in S(ev.writes) : w.audited]_vars

-----------------------------------------------------------------------------
(* Layer M - the observed transition is the specification's transition     *)
M_Values ==
  \A r \in R : LET o == Obs[r] IN
    S(o.rawheads) \subseteq S(o.ents) => o.values = ValuesOf(UU, Fn, S(o.ents), o.rawheads)
\* ToString: newest first, each line indented by the length of its first-child chain
M_ToString ==
  \A r \in R : LET o == Obs[r] IN
    /\ o.strids = RevSeq(o.values)
    /\ \A i \in DOMAIN o.strids : o.strdepth[i] = ChildChainLen(UU, o.strids[i], o.values)
M_Heads ==
  \A r \in R : LET o == Obs[r] IN o.heads = SortIds(UU, Fn, o.rawheads, TRUE) /\ o.jsonheads = o.heads
                                  /\ o.snapheads = o.rawheads
M_Nidx ==
  \A r \in R : Obs[r].pure => S(Obs[r].nidx) = NextsOf(UU, S(Obs[r].ents))
M_Iterator ==
  ph = "post" /\ ev.op = "I" =>
     LET a == IterAlgo(UU, Fn, S(pre[ev.r].ents), pre[ev.r].rawheads, IterOpts) IN
     /\ ~IterRes.panic
     /\ (a.err = "") = (IterRes.err = "")
     /\ a.err = "" => IterRes.out = a.out /\ IterRes.closed = a.closed
     /\ post = pre
M_ClockId == \A r \in R : Obs[r].clkw = Obs[r].ident

M_Append ==
  [][IsStep /\ ev.op = "A" =>
       LET r == ev.r
           p == AppendPlan(UU, Fn, Abs(pre[r]), ev.n)
           new == {w.id : w \in S(ev.writes)}
       IN /\ Cardinality(new) = 1
          /\ LET id == CHOOSE x \in new : TRUE  e == UU[id] IN
             /\ e.t = p.t /\ e.next = p.next /\ e.refs = p.refs /\ e.w = pre[r].ident
             /\ e.lid = pre[r].lid /\ e.v = 2
             /\ post[r].clk = p.t
             /\ IF ev.err = ""
                THEN /\ ev.ret = id
                     /\ post[r].ents = Append(pre[r].ents, id)
                     /\ post[r].rawheads = <<id>>
                     /\ S(post[r].nidx) = S(pre[r].nidx) \cup S(e.next)
                ELSE /\ post[r].ents = pre[r].ents /\ post[r].rawheads = pre[r].rawheads
                     /\ post[r].nidx = pre[r].nidx]_vars

M_AppendWriteFault ==
  [][IsStep /\ ev.op = "AF" =>
       LET r == ev.r  p == AppendPlan(UU, Fn, Abs(pre[r]), ev.n) IN
       /\ post[r].clk = p.t /\ post[r].ents = pre[r].ents /\ post[r].rawheads = pre[r].rawheads
       /\ post[r].nidx = pre[r].nidx]_vars

M_Join ==
  [][IsStep /\ ev.op \in {"J", "JB"} =>
       LET r == ev.r  s == ev.s IN
       IF r = s \/ pre[r].lid # pre[s].lid \/ (ev.err # "" /\ ~ev.panic)
       THEN post[r] = pre[r]
       ELSE LET j == JoinResult(UFor(pre[s]), Fn, Abs(pre[r]), [ents |-> S(pre[s].ents), heads |-> pre[s].rawheads],
                                pre[r].lid, ev.n)
            IN /\ ev.panic = j.panic
               /\ ~j.panic =>
                    /\ S(post[r].ents) = j.ents
                    /\ (ev.n < 0 => post[r].ents = pre[r].ents \o j.new)
                    /\ post[r].rawheads = j.heads
                    /\ S(post[r].nidx) = j.nidx
                    /\ post[r].clk = j.clk]_vars

M_Tamper ==
  [][IsStep /\ ev.op = "T" /\ ~ev.div =>
       /\ post[ev.r].ents = pre[ev.r].ents /\ post[ev.r].rawheads = pre[ev.r].rawheads
       /\ post[ev.r].clk = pre[ev.r].clk /\ post[ev.r].nidx = pre[ev.r].nidx
       /\ BadIdsOf(post[ev.r]) = BadIdsOf(pre[ev.r]) \cup {ev.n}]_vars

M_Fork ==
  [][IsStep /\ ev.op = "F" /\ ~ev.div =>
       LET r == ev.r  s == ev.s IN
       /\ post[r].ents = pre[s].ents                      \* same key order as the source's index
       /\ post[r].rawheads = pre[s].heads
       /\ S(post[r].nidx) = NextsOf(UU, S(pre[s].ents))
       /\ post[r].clk = MaxTimeOf(UU, pre[s].heads, 0)
       /\ post[r].ident = pre[r].ident]_vars

\* a log read back from the store: the causal closure of its starting points, heads derived from the entries
\* (listed heads for the manifest loader), reverse index rebuilt, clock from LogOptions.Heads only
M_Load ==
  [][IsStep /\ ev.op = "L" /\ ~ev.div =>
       LET r == ev.r  s == ev.s
           from == IF ev.kind = "hash" THEN {ev.n} ELSE S(pre[s].heads)
           got  == from \cup UNION {PastOf(UU, x) : x \in from}
       IN /\ ev.err = "" /\ ~ev.panic
          /\ S(post[r].ents) = got
          /\ S(post[r].rawheads) = MaximalOf(UU, got)
          /\ S(post[r].nidx) = NextsOf(UU, got)
          /\ post[r].clk = (IF ev.kind = "mh" THEN MaxTimeOf(UU, pre[s].heads, 0) ELSE 0)
          /\ post[r].ident = pre[r].ident]_vars

M_SetIdentity ==
  [][IsStep /\ ev.op = "SI" =>
       /\ post[ev.r].ident = ev.n /\ post[ev.r].clkw = ev.n
       /\ post[ev.r].clk = MaxInt(pre[ev.r].clk, MaxTimeOf(UU, pre[ev.r].rawheads, 0))
       /\ post[ev.r].ents = pre[ev.r].ents /\ post[ev.r].rawheads = pre[ev.r].rawheads]_vars

-----------------------------------------------------------------------------
\* every record was walked: 2 distinct states per record
TraceAccepted == TLCGet("stats").distinct = 2 * NRec \/ TLCGet("stats").distinct = 0
=============================================================================
