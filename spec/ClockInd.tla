------------------------------ MODULE ClockInd ------------------------------
(***************************************************************************)
(* The Lamport-clock rule of Append, Join, SetIdentity and of the loaders  *)
(* (log.go) over the sets-only abstraction of CoreInd.tla, with an         *)
(* INDUCTIVE invariant for the clock clause of C04: the time Append gives  *)
(* a new entry is strictly greater than the time of every entry the log    *)
(* holds.  The supporting facts are                                         *)
(*   - time increases strictly along next (so the newest entries are       *)
(*     heads), and                                                         *)
(*   - the heads are the maximal entries (C02, proved in CoreInd.tla and   *)
(*     assumed here as part of the invariant).                             *)
(* A log read back from the store starts with clock 0 (Reload): the rule   *)
(* still holds because Append takes the maximum over ALL heads.            *)
(*                                                                         *)
(*   apalache-mc check --init=IndInit --inv=IndInv --length=1 ClockInd.tla *)
(*   apalache-mc check --init=Init    --inv=IndInv --length=0 ClockInd.tla *)
(***************************************************************************)
EXTENDS Integers, FiniteSets

CONSTANTS
  \* @type: Int;
  N,
  \* @type: Int;
  NR,
  \* @type: Int;
  MaxT

Ids == 1..N
R   == 1..NR
T   == 0..MaxT

VARIABLES
  \* @type: Set(Int);
  created,
  \* @type: Int -> Set(Int);
  nxt,
  \* @type: Int -> Int;
  tm,
  \* @type: Int -> Set(Int);
  ents,
  \* @type: Int -> Set(Int);
  heads,
  \* @type: Int -> Int;
  clk

vars == <<created, nxt, tm, ents, heads, clk>>

\* @type: (Set(Int)) => Set(Int);
Maximal(S) == {e \in S : \A f \in S : e \notin nxt[f]}
\* b is the maximum of d and the times of the entries of S
\* @type: (Set(Int), Int, Int) => Bool;
IsMax(S, d, b) == /\ b >= d /\ \A x \in S : tm[x] <= b
                  /\ (b = d \/ \E x \in S : tm[x] = b)

Init ==
  /\ created = {}
  /\ nxt = [x \in Ids |-> {}]
  /\ tm = [x \in Ids |-> 0]
  /\ ents = [r \in R |-> {}]
  /\ heads = [r \in R |-> {}]
  /\ clk = [r \in R |-> 0]

\* Append: newTime = max(l.Clock.time, max over ALL heads) + 1
DoAppend(r) ==
  \E x \in Ids, b \in T :
    LET t == b + 1 IN
    /\ IsMax(heads[r], clk[r], b)
    /\ x \notin created /\ \A y \in created : y < x
    /\ t \in T
    /\ created' = created \cup {x}
    /\ nxt' = [nxt EXCEPT ![x] = heads[r]]
    /\ tm' = [tm EXCEPT ![x] = t]
    /\ ents' = [ents EXCEPT ![r] = @ \cup {x}]
    /\ heads' = [heads EXCEPT ![r] = {x}]
    /\ clk' = [clk EXCEPT ![r] = t]

\* a refused append keeps the tick (and, not modelled here, an orphan block)
DoAppendDenied(r) ==
  \E b \in T :
    /\ IsMax(heads[r], clk[r], b)
    /\ b + 1 \in T
    /\ clk' = [clk EXCEPT ![r] = b + 1]
    /\ UNCHANGED <<created, nxt, tm, ents, heads>>

\* unbounded Join: union, heads = maximal entries (CoreInd.tla), clock = max(clock, newest head)
Join(r, s) ==
  /\ r # s
  /\ LET e2 == ents[r] \cup ents[s]
         h2 == Maximal(e2)
     IN \E b \in T :
          /\ IsMax(h2, clk[r], b)
          /\ ents' = [ents EXCEPT ![r] = e2]
          /\ heads' = [heads EXCEPT ![r] = h2]
          /\ clk' = [clk EXCEPT ![r] = b]
  /\ UNCHANGED <<created, nxt, tm>>

\* SetIdentity: clock caught up with the heads
SetIdentity(r) ==
  \E b \in T :
    /\ IsMax(heads[r], clk[r], b)
    /\ clk' = [clk EXCEPT ![r] = b]
    /\ UNCHANGED <<created, nxt, tm, ents, heads>>

\* a log read back from the store by a loader that passes no heads to NewLog: same entries, clock 0
Reload(r, s) ==
  /\ ents' = [ents EXCEPT ![r] = ents[s]]
  /\ heads' = [heads EXCEPT ![r] = heads[s]]
  /\ clk' = [clk EXCEPT ![r] = 0]
  /\ UNCHANGED <<created, nxt, tm>>

Next == \E r \in R : \/ DoAppend(r) \/ DoAppendDenied(r) \/ SetIdentity(r)
                     \/ \E s \in R : Join(r, s) \/ Reload(r, s)

TypeOK ==
  /\ created \subseteq Ids
  /\ nxt \in [Ids -> SUBSET Ids]
  /\ tm \in [Ids -> T]
  /\ ents \in [R -> SUBSET Ids]
  /\ heads \in [R -> SUBSET Ids]
  /\ clk \in [R -> T]

\* every entry of the log is at most what Append will base the next time on: the clock or some head
Dominated(r, x) == tm[x] <= clk[r] \/ \E h \in heads[r] : tm[x] <= tm[h]

IndInv ==
  /\ TypeOK
  /\ \A x \in Ids : x \notin created => nxt[x] = {} /\ tm[x] = 0
  /\ \A x \in created : tm[x] >= 1 /\ nxt[x] \subseteq created
                        /\ \A y \in nxt[x] : y < x /\ tm[y] < tm[x]              \* time increases along next
  /\ \A r \in R :
       /\ ents[r] \subseteq created
       /\ \A x \in ents[r] : nxt[x] \subseteq ents[r]                              \* causally closed
       /\ heads[r] = Maximal(ents[r])                                              \* C02
       /\ \A x \in ents[r] : Dominated(r, x)                                      \* C04: the next append dominates

\* C04's clock clause as a plain consequence
C04_NextAppendDominates ==
  \A r \in R, b \in T : IsMax(heads[r], clk[r], b) => \A x \in ents[r] : tm[x] < b + 1

IndInit ==
  /\ created \in SUBSET Ids
  /\ nxt \in [Ids -> SUBSET Ids]
  /\ tm \in [Ids -> T]
  /\ ents \in [R -> SUBSET Ids]
  /\ heads \in [R -> SUBSET Ids]
  /\ clk \in [R -> T]
  /\ IndInv
=============================================================================
