------------------------------ MODULE Keystore ------------------------------
(***************************************************************************)
(* keystore/keystore.go + identityprovider: an LRU cache in front of a     *)
(* shared datastore, several keystore instances over the same datastore,   *)
(* restart, and identity creation (which gets-or-creates two keys: the one *)
(* named by the caller's id and the one named by that key's public key).   *)
(* Keys are immutable once created, so a key is identified with its id.    *)
(* The LRU policy and its capacity are abstracted: any cached id may be    *)
(* evicted at any time (Evict keeps an arbitrary subset).                  *)
(***************************************************************************)
EXTENDS Integers, Sequences, FiniteSets, TLC, Json

CONSTANTS NK,       \* keystore instances 1..NK over one datastore
          Names,    \* ids offered by callers
          MaxOps

Inst == 1..NK
Pub(n) == "pub:" \o n          \* the id under which signID stores the identity key of name n
AllIds == Names \cup {Pub(n) : n \in Names}

VARIABLES ds,      \* ids present in the datastore
          cache,   \* [Inst -> SUBSET AllIds]
          last,    \* result of the last operation (observable)
          hist

vars == <<ds, cache, last, hist>>

Init == ds = {} /\ cache = [k \in Inst |-> {}] /\ last = [op |-> "init"] /\ hist = <<>>

CanOp == Len(hist) < MaxOps

\* the lookup both GetKey and (after the repair) HasKey perform: cache first, then the store, filling the cache
Lookup(k, id) == IF id \in cache[k] \/ id \in ds THEN cache' = [cache EXCEPT ![k] = @ \cup {id}] ELSE cache' = cache

Create(k, id) ==
  /\ CanOp /\ id \in Names /\ id \notin ds
  /\ ds' = ds \cup {id}
  /\ cache' = [cache EXCEPT ![k] = @ \cup {id}]
  /\ last' = [op |-> "create", id |-> id, ok |-> TRUE]
  /\ hist' = Append(hist, <<"C", k, id>>)

Get(k, id) ==
  /\ CanOp /\ id \in Names
  /\ Lookup(k, id)
  /\ last' = [op |-> "get", id |-> id, ok |-> (id \in ds)]
  /\ hist' = Append(hist, <<"G", k, id>>)
  /\ UNCHANGED ds

Has(k, id) ==
  /\ CanOp /\ id \in Names
  /\ Lookup(k, id)
  /\ last' = [op |-> "has", id |-> id, ok |-> (id \in ds)]
  /\ hist' = Append(hist, <<"H", k, id>>)
  /\ UNCHANGED ds

Evict(k, keep) ==
  /\ CanOp /\ keep \subseteq cache[k] /\ keep # cache[k]
  /\ cache' = [cache EXCEPT ![k] = keep]
  /\ last' = [op |-> "evict"]
  /\ hist' = Append(hist, <<"E", k, keep>>)
  /\ UNCHANGED ds

Open(k) ==
  /\ CanOp /\ cache[k] # {}
  /\ cache' = [cache EXCEPT ![k] = {}]
  /\ last' = [op |-> "open"]
  /\ hist' = Append(hist, <<"O", k>>)
  /\ UNCHANGED ds

\* CreateIdentity: GetKey(name) else CreateKey(name); GetKey(pub) else CreateKey(pub)
Ident(k, n) ==
  /\ CanOp /\ n \in Names
  /\ ds' = ds \cup {n, Pub(n)}
  /\ cache' = [cache EXCEPT ![k] = @ \cup {n, Pub(n)}]
  /\ last' = [op |-> "ident", id |-> n, ok |-> TRUE, fresh |-> (n \notin ds)]
  /\ hist' = Append(hist, <<"I", k, n>>)

Next ==
  \/ \E k \in Inst, id \in Names : Create(k, id) \/ Get(k, id) \/ Has(k, id) \/ Ident(k, id)
  \/ \E k \in Inst : Open(k) \/ \E keep \in SUBSET cache[k] : Evict(k, keep)

Spec == Init /\ [][Next]_vars

LastOp == IF hist = <<>> THEN <<>> ELSE hist[Len(hist)]
View == <<ds, cache, LastOp, Len(hist)>>
Export == IF hist = <<>> THEN TRUE ELSE PrintT("HIST " \o ToJson(hist))

\* C20 at design level
C20_CacheCoherent == \A k \in Inst : cache[k] \subseteq ds
C20_HasIsPresent  == last.op = "has" => last.ok = (last.id \in ds)
C20_GetIsStable   == last.op = "get" => last.ok = (last.id \in ds)
C20_KeysNeverVanish == [][ds \subseteq ds']_vars
=============================================================================
