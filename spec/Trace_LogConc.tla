---------------------------- MODULE Trace_LogConc ----------------------------
(***************************************************************************)
(* Validation of concurrency scenarios run on the real logs under the lock *)
(* scheduler (family K).  Records:                                         *)
(*  k = "step":  goroutine g was released from a yield point and came to   *)
(*               rest again; observed state of every log before and after  *)
(*               (obs = FALSE when a goroutine sat on a lock across the    *)
(*               yield point, which the repaired design never does); when  *)
(*               the step completed a Join, cands lists every state the    *)
(*               source was observed in since that Join began              *)
(*  k = "final": which calls returned, what they returned, the global step *)
(*               numbers at which each call began and ended                *)
(***************************************************************************)
EXTENDS LogOps, TLC, Json

CONSTANT TraceFile
Trace == ndJsonDeserialize(TraceFile)
Hdr   == Trace[1]
NRec  == Len(Trace) - 1
Rec(i) == Trace[i + 1]
UU == Hdr.U
Fn == Hdr.cfg.Fn

VARIABLES l, ph
vars == <<l, ph>>
Init == l \in 1..NRec /\ ph = "pre"
Next == ph = "pre" /\ ph' = "post" /\ l' = l
Spec == Init /\ [][Next]_vars

ev == Rec(l)
S(seq) == SeqRange(seq)
NoDup(seq) == Len(seq) = Cardinality(S(seq))
IsStep  == ev.k = "step"
IsFinal == ev.k = "final"
NLogs == Len(ev.post)
Abs(o) == [ents |-> S(o.ents), heads |-> o.rawheads, nidx |-> S(o.nidx), clk |-> o.clk]

H_WellFormed == ev.k \in {"step", "final"} /\ ~ev.herr

Causal(v) == \A a, b \in DOMAIN v : a < b => v[b] \notin PastOf(UU, v[a])
StructOK(o) ==
  /\ S(o.heads) = MaximalOf(UU, S(o.ents)) /\ NoDup(o.heads)
  /\ IsPermutationOf(o.values, S(o.ents)) /\ Causal(o.values)
  /\ ClosedIn(UU, S(o.ents))
  /\ o.len = Len(o.ents)

\* ---- C13 ----------------------------------------------------------------
C13_StateConsistent == ev.postobs => \A r \in 1..NLogs : StructOK(ev.post[r])
ReadOK(rt) ==
  /\ rt.hasv => NoDup(rt.values) /\ Causal(rt.values) /\ ClosedIn(UU, S(rt.values))
  /\ rt.hash => NoDup(rt.heads) /\ \A a, b \in S(rt.heads) : a \notin PastOf(UU, b)
  /\ (rt.hasv /\ rt.hash) => S(rt.heads) = MaximalOf(UU, S(rt.values))
  /\ rt.hase => NoDup(rt.ents) /\ ClosedIn(UU, S(rt.ents))
C13_ReadsConsistent ==
  /\ IsFinal => \A i \in DOMAIN ev.rets : ev.rets[i].kind \in {"read", "manifest"} => ReadOK(ev.rets[i])
  /\ IsStep /\ ev.finished => (ev.ret.kind \in {"read", "manifest"} => ReadOK(ev.ret))
C13_NoDeadlock == IsFinal => ev.alldone
C13_NoPanic == IsFinal => \A i \in DOMAIN ev.rets : ~ev.rets[i].panic
AppendIdx == {i \in DOMAIN ev.procs : ev.procs[i].op = "A" /\ ev.rets[i].kind = "entry"}
C13_AppendsSucceed == IsFinal /\ ev.alldone => \A i \in DOMAIN ev.procs : ev.procs[i].op = "A" => ev.rets[i].kind = "entry"
C13_ExactlyOnce ==
  IsFinal /\ ev.alldone /\ ev.postobs =>
     /\ \A i \in AppendIdx : ev.rets[i].id \in S(ev.post[ev.procs[i].r].values) /\ NoDup(ev.post[ev.procs[i].r].values)
     /\ \A i, j \in AppendIdx : i # j => ev.rets[i].id # ev.rets[j].id
C13_AppendsFormChain ==
  IsFinal => \A i, j \in AppendIdx : (i # j /\ ev.procs[i].r = ev.procs[j].r) =>
     /\ ev.rets[i].id \in PastOf(UU, ev.rets[j].id) \/ ev.rets[j].id \in PastOf(UU, ev.rets[i].id)   \* one chain
     /\ (ev.ended[i] # 0 /\ ev.ended[i] < ev.began[j]) => ev.rets[i].id \in PastOf(UU, ev.rets[j].id)

\* ---- C14 ----------------------------------------------------------------
C14_NoDeadlock == IsFinal => ev.alldone
C14_HeadsInEnts == ev.postobs => \A r \in 1..NLogs : S(ev.post[r].heads) \subseteq S(ev.post[r].ents)
JoinDone == IsStep /\ ev.finished /\ ev.op.op = "J" /\ ev.op.r # ev.op.s /\ ev.ret.kind = "ok" /\ ev.postobs
C14_JoinSucceeds == IsStep /\ ev.finished /\ ev.op.op = "J" => ev.ret.kind = "ok"
C14_SnapshotAtomic ==
  JoinDone =>
    LET dst == ev.post[ev.op.r] IN
    /\ ev.cands # <<>>
    /\ \E c \in S(ev.cands) :
          /\ S(c.ents) \subseteq S(dst.ents)
          /\ ev.obs => S(dst.ents) = S(ev.pre[ev.op.r].ents) \cup S(c.ents)
    /\ S(dst.heads) = MaximalOf(UU, S(dst.ents))

\* ---- Layer M ---------------------------------------------------------------
\* only Append, Join's second step and SetIdentity change a log; everything else leaves all logs as they were
M_PureSteps ==
  IsStep /\ ev.obs /\ ~ev.blocked /\ ~(ev.op.op = "A" \/ ev.op.op = "SI" \/ (ev.op.op = "J" /\ ev.finished)) => ev.post = ev.pre
M_OthersUntouched ==
  IsStep /\ ev.obs /\ ~ev.blocked => \A r \in 1..NLogs : r # ev.op.r => ev.post[r] = ev.pre[r]
\* Join applies exactly the snapshot taken in its first step (the source as it was before that step)
M_JoinApply ==
  JoinDone /\ ev.obs /\ ev.cands # <<>> =>
    LET r == ev.op.r
        j == JoinResult(UU, Fn, Abs(ev.pre[r]), [ents |-> S(ev.cands[1].ents), heads |-> ev.cands[1].heads], ev.pre[r].lid, -1)
    IN S(ev.post[r].ents) = j.ents /\ ev.post[r].rawheads = j.heads /\ ev.post[r].clk = j.clk
\* the step structure of the repaired design: Join two steps (one when r = s), ToMultihash three (two on an empty log), others one
M_StepStructure ==
  IsStep /\ ~ev.blocked =>
    CASE ev.op.op = "J" -> (ev.from = "enter.Join" /\ (ev.finished \/ ev.to = "join.lock")) \/ (ev.from = "join.lock" /\ ev.finished)
      [] ev.op.op = "P" -> ev.from \in {"enter.ToMultihash", "enter.RawHeads", "enter.ToJSONLog"}
      [] ev.op.op = "R" /\ ev.op.acc = "ToString" -> TRUE
      [] ev.op.op = "R" /\ ev.op.acc = "RawHeadsHeld" ->
           (ev.from = "enter.RawHeads" /\ ev.to = "held.RawHeads") \/ (ev.from = "held.RawHeads" /\ ev.finished)
      [] OTHER -> ev.finished

TraceAccepted == TLCGet("stats").distinct = 2 * NRec
=============================================================================
