------------------------------- MODULE Sorting -------------------------------
(***************************************************************************)
(* The ordering functions of go-ipfs-log (entry/sorting/sorting.go,        *)
(* entry/lamportclock.go) over abstract entries (t, w, h) = (rank of the   *)
(* clock time, rank of the clock id bytes, rank of the CID string).  The   *)
(* comparators themselves are the transcriptions in LogOps.tla; this       *)
(* module states the laws of C19 and lets TLC check them on the whole cube *)
(* of rank triples (design level).  Trace_Sorting.tla checks the same laws *)
(* - and equality with the transcriptions - on what the real functions     *)
(* returned for concrete entries order-isomorphic to the ranks.            *)
(***************************************************************************)
EXTENDS LogOps, TLC

CONSTANT K          \* ranks 0..K-1 in each dimension

Cube == [t : 0..(K - 1), w : 0..(K - 1), h : 0..(K - 1)]
Sg(fn, a, b) == Sign(Cmp(fn, a, b))

VARIABLE once
Init == once = TRUE
Next == UNCHANGED once
Spec == Init /\ [][Next]_once

\* strict total order on distinct entries
StrictTotal(fn) ==
  /\ \A a \in Cube : ~(Sg(fn, a, a) < 0)                                           \* irreflexive
  /\ \A a, b \in Cube : a # b => Sg(fn, a, b) # 0 /\ Sg(fn, a, b) = -Sg(fn, b, a)  \* total, antisymmetric
  /\ \A a, b, c \in Cube : Sg(fn, a, b) < 0 /\ Sg(fn, b, c) < 0 => Sg(fn, a, c) < 0 \* transitive

C19_HashStrictTotal == StrictTotal("HASH")

\* the default ordering is the same as the hash-tiebreak one whenever (time, id) pairs are distinct
C19_LwwIsHashWhenClocksDistinct ==
  \A a, b \in Cube : (a.t # b.t \/ a.w # b.w) => Sg("LWW", a, b) = Sg("HASH", a, b)

\* clock comparison: antisymmetric and transitive (in sign), 0 exactly on equal clocks
C19_ClockCompareLawful ==
  /\ \A a, b \in Cube : Sign(ClockCmp(a, b)) = -Sign(ClockCmp(b, a))
  /\ \A a, b \in Cube : ClockCmp(a, b) = 0 <=> (a.t = b.t /\ a.w = b.w)
  /\ \A a, b, c \in Cube : ClockCmp(a, b) < 0 /\ ClockCmp(b, c) < 0 => ClockCmp(a, c) < 0
  /\ \A a, b, c \in Cube : ClockCmp(a, b) <= 0 /\ ClockCmp(b, c) <= 0 => ClockCmp(a, c) <= 0

\* every ordering puts an entry after every entry with a smaller clock time
C19_RespectsTime ==
  \A a, b \in Cube : a.t < b.t =>
     Sg("HASH", a, b) < 0 /\ Sg("LWW", a, b) < 0 /\ Sg("CLK", a, b) < 0

\* first-write-wins is the exact reverse of last-write-wins
C19_FwwReversesLww == \A a, b \in Cube : Cmp("FWW", a, b) = -Cmp("LWW", a, b)

\* sorting: a permutation of the input, ordered, and (strict comparator) independent of input order
Lists(n) == UNION {[1..m -> Cube] : m \in 0..n}
IdxSeq(s) == [i \in 1..Len(s) |-> i]
SortedBy(U, fn, out, rev) ==
  \A i, j \in DOMAIN out : i < j =>
     LET c == Cmp(fn, U[out[i]], U[out[j]]) IN
     (U[out[i]] # U[out[j]] /\ Cmp(fn, U[out[j]], U[out[i]]) = -c /\ c # 0) => (IF rev THEN c > 0 ELSE c < 0)
C19_SortIsPermutationAndOrdered ==
  \A fn \in {"LWW", "HASH", "CLK", "FWW"}, rev \in BOOLEAN :
    \A s \in Lists(3) :
       LET out == SortIds(s, fn, IdxSeq(s), rev) IN
       /\ IsPermutationOf(out, DOMAIN s)
       /\ SortedBy(s, fn, out, rev)
=============================================================================
