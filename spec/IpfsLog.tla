------------------------------- MODULE IpfsLog -------------------------------
(***************************************************************************)
(* The log CRDT of go-ipfs-log as a state machine over a content-addressed *)
(* entry universe: replicas (IPFSLog instances) that Append, Join (bounded *)
(* or not) and change identity.  One action per public call.               *)
(*                                                                         *)
(* The algorithms are the transcriptions in LogOps.tla; the properties     *)
(* (C01..C05, C16) are stated declaratively at the bottom, so TLC checks   *)
(* "algorithm => property" over every history within the bound, and each   *)
(* explored history is exported (variable hist) to be replayed on the real *)
(* code.                                                                   *)
(***************************************************************************)
EXTENDS LogOps, TLC, Json

CONSTANTS
  NR,        \* number of replicas 1..NR
  Writer0,   \* <<w_1..w_NR>> initial writer (key rank) of each replica; replicas may share one
  Lid,       \* <<lid_1..lid_NR>> log id of each replica
  Fn,        \* "LWW" | "FWW" | "HASH"  comparator of every replica
  MaxE,      \* bound on the number of entries ever created
  MaxOps,    \* bound on the history length
  PCs,       \* pointer counts offered to Append
  Sizes,     \* size bounds offered to bounded Join ({} = no bounded joins)
  Writers,   \* writers offered to SetIdentity ({} = disabled)
  Denied,    \* <<D_1..D_NR>> set of writers each replica's access controller denies
  HashPerm,  \* "id" | "rev": hash rank of the i-th created entry (i or -i)
  IterOn,    \* set of replicas on which Iterator is exercised ({} = never)
  Evil,      \* replicas that may replace entries they hold by tampered copies ({} = none)
  Kinds,     \* tamper kinds offered: "unsigned","missigned","nokey","payload","wrongkey","foreign"
  MaxBad,    \* bound on the number of tampered copies
  PubOn,     \* replicas that may publish their manifest (ToMultihash) ({} = never)
  WriteFaults,\* TRUE: the store may refuse the block write of an append
  ForkOn,    \* replicas that may be rebuilt from another replica's entries and heads (NewLog with options) ({} = never)
  Payloads,  \* payload kinds offered to Append: "p" (some bytes), "empty" (zero-length payload - accepted, signed, stored)
  ForkModes, \* how a Fork hands over the entries: "copy" (GetEntries(): a copy) and/or "live" (the source's own entry index)
  CrossFork, \* TRUE: a Fork may also take the entries of a replica with ANOTHER log id (a log with its own id built on foreign entries)
  LoadKinds  \* loaders by which a ForkOn replica may be rebuilt from the store: "entry","json","hash","mh" ({} = never)

VARIABLES
  U,      \* sequence of entry records (index = creation order = model CID)
  ents,   \* [1..NR -> SUBSET DOMAIN U]     l.Entries (key set)
  heads,  \* [1..NR -> Seq(DOMAIN U)]       l.heads (ordered map key order)
  nidx,   \* [1..NR -> SUBSET Nat]          key set of the reverse index l.Next
  clk,    \* [1..NR -> Nat]                 l.Clock time
  ident,  \* [1..NR -> writer]
  pure,   \* [1..NR -> BOOLEAN]  only appends and unbounded joins of pure logs so far
  bad,    \* [1..NR -> SUBSET (DOMAIN U \X Kinds)]  tampered copies held in place of the original
  hist    \* the history (sequence of ops), exported for replay

vars == <<U, ents, heads, nidx, clk, ident, pure, bad, hist>>
core == <<U, ents, heads, nidx, clk, ident, pure, bad>>

R == 1..NR

St(r)  == [ents |-> ents[r], heads |-> heads[r], nidx |-> nidx[r], clk |-> clk[r]]
Src(s) == [ents |-> ents[s], heads |-> heads[s]]

HRank(i) == IF HashPerm = "rev" THEN 0 - i ELSE i

Init ==
  /\ U = <<>>
  /\ ents  = [r \in R |-> {}]
  /\ heads = [r \in R |-> <<>>]
  /\ nidx  = [r \in R |-> {}]
  /\ clk   = [r \in R |-> 0]
  /\ ident = [r \in R |-> Writer0[r]]
  /\ pure  = [r \in R |-> TRUE]
  /\ bad   = [r \in R |-> {}]
  /\ hist  = <<>>

\* an Iterator call ends the history (it does not change any state)
CanOp == Len(hist) < MaxOps /\ (IF hist = <<>> THEN TRUE ELSE hist[Len(hist)][1] # "I")

(***************************************************************************)
(* Append (log.go l.303-398).  The block is written and the clock advanced *)
(* before the access controller is consulted; a denied append keeps the    *)
(* clock tick and the orphan block but changes neither entries nor heads.  *)
(***************************************************************************)
NewEntry(r, pc) ==
  LET p == AppendPlan(U, Fn, St(r), pc)
  IN [w |-> ident[r], t |-> p.t, next |-> p.next, refs |-> p.refs,
      h |-> HRank(Len(U) + 1), lid |-> Lid[r]]

AOp(name, r, pc, pl) == IF pl = "p" THEN <<name, r, pc>> ELSE <<name, r, pc, pl>>

AppendOk(r, pc, pl) ==
  /\ CanOp /\ Len(U) < MaxE
  /\ ident[r] \notin Denied[r]
  /\ LET e == NewEntry(r, pc)
         id == Len(U) + 1
     IN /\ U' = Append(U, e)
        /\ ents'  = [ents EXCEPT ![r] = @ \cup {id}]
        /\ heads' = [heads EXCEPT ![r] = <<id>>]
        /\ nidx'  = [nidx EXCEPT ![r] = @ \cup SeqRange(e.next)]
        /\ clk'   = [clk EXCEPT ![r] = e.t]
  /\ hist' = Append(hist, AOp("A", r, pc, pl))
  /\ UNCHANGED <<ident, pure, bad>>

AppendDenied(r, pc, pl) ==
  /\ CanOp /\ Len(U) < MaxE
  /\ ident[r] \in Denied[r]
  /\ LET e == NewEntry(r, pc)
     IN /\ U' = Append(U, e)                      \* the orphan block
        /\ clk' = [clk EXCEPT ![r] = e.t]         \* the tick is kept
  /\ hist' = Append(hist, AOp("A", r, pc, pl))
  /\ UNCHANGED <<ents, heads, nidx, ident, pure, bad>>

\* the store refuses the block: CreateEntryWithIO fails, Append returns the error; only the clock tick remains
AppendWriteFault(r, pc, pl) ==
  /\ CanOp /\ WriteFaults
  /\ LET e == NewEntry(r, pc) IN clk' = [clk EXCEPT ![r] = e.t]
  /\ hist' = Append(hist, AOp("AF", r, pc, pl))
  /\ UNCHANGED <<U, ents, heads, nidx, ident, pure, bad>>

(***************************************************************************)
(* Join (log.go l.510-618).  r = s is the "same instance" early return,    *)
(* different ids the "different logs" early return.  Every candidate       *)
(* written by a writer the destination denies makes the whole join fail.   *)
(***************************************************************************)
JoinNoop(r, s) ==
  /\ CanOp
  /\ (r = s \/ Lid[r] # Lid[s])
  /\ hist' = Append(hist, <<"J", r, s>>)
  /\ UNCHANGED core

\* what the copies held by replica s look like: a "foreign" copy carries another log id
BadIds(s)  == {b[1] : b \in bad[s]}
UFor(s)    == [x \in DOMAIN U |-> IF <<x, "foreign">> \in bad[s] THEN [U[x] EXCEPT !.lid = "~"] ELSE U[x]]
Invalid(s) == {b[1] : b \in {c \in bad[s] : c[2] # "foreign"}}      \* copies that must not verify

CandidatesValid(r, s) ==
  \A x \in SeqRange(JoinCandidates(UFor(s), St(r), Src(s), Lid[r])) :
     U[x].w \notin Denied[r] /\ x \notin Invalid(s)

JoinOk(r, s, size) ==
  /\ CanOp
  /\ r # s /\ Lid[r] = Lid[s]
  /\ CandidatesValid(r, s)
  /\ LET j == JoinResult(UFor(s), Fn, St(r), Src(s), Lid[r], size)
     IN /\ ~j.panic
        /\ ents'  = [ents EXCEPT ![r] = j.ents]
        /\ heads' = [heads EXCEPT ![r] = j.heads]
        /\ nidx'  = [nidx EXCEPT ![r] = j.nidx]
        /\ clk'   = [clk EXCEPT ![r] = j.clk]
  /\ pure' = [pure EXCEPT ![r] = @ /\ pure[s] /\ size < 0]
  /\ hist' = Append(hist, IF size < 0 THEN <<"J", r, s>> ELSE <<"JB", r, s, size>>)
  /\ UNCHANGED <<U, ident, bad>>

JoinFail(r, s, size) ==
  /\ CanOp
  /\ r # s /\ Lid[r] = Lid[s]
  /\ ~CandidatesValid(r, s)
  /\ hist' = Append(hist, IF size < 0 THEN <<"J", r, s>> ELSE <<"JB", r, s, size>>)
  /\ UNCHANGED core

(***************************************************************************)
(* SetIdentity (log.go l.178-191): new writer, clock caught up with heads. *)
(***************************************************************************)
SetIdentity(r, w) ==
  /\ CanOp
  /\ w # ident[r]
  /\ ident' = [ident EXCEPT ![r] = w]
  /\ clk'   = [clk EXCEPT ![r] = MaxInt(@, MaxTimeOf(U, heads[r], 0))]
  /\ hist'  = Append(hist, <<"SI", r, w>>)
  /\ UNCHANGED <<U, ents, heads, nidx, pure, bad>>

(***************************************************************************)
(* Fork: NewLog with LogOptions.Entries = src.GetEntries() and             *)
(* LogOptions.Heads = src.Heads() (log.go l.103-176), as the loaders and   *)
(* any caller holding a log may do.  The new instance replaces replica r;  *)
(* it keeps r's identity and access controller, indexes every next of the  *)
(* given entries and starts its clock at the newest head.  With CrossFork  *)
(* the source may be a log with another id: the new log then holds         *)
(* genuinely signed entries that carry a foreign id below its own ones -   *)
(* which a merge from it must not admit (C06).                             *)
(***************************************************************************)
\* NewLog copies the entries it is given, so both modes have the same effect
Fork(r, s, mode) ==
  /\ CanOp /\ mode \in ForkModes /\ r \in ForkOn /\ r # s /\ (Lid[r] = Lid[s] \/ CrossFork) /\ ents[s] # {}
  /\ bad[r] = {} /\ bad[s] = {}
  /\ ents'  = [ents EXCEPT ![r] = ents[s]]
  /\ heads' = [heads EXCEPT ![r] = SortIds(U, Fn, heads[s], TRUE)]      \* given in Heads() order
  /\ nidx'  = [nidx EXCEPT ![r] = NextsOf(U, ents[s])]
  /\ clk'   = [clk EXCEPT ![r] = MaxTimeOf(U, heads[s], 0)]
  /\ pure'  = [pure EXCEPT ![r] = pure[s] /\ Lid[r] = Lid[s]]
  /\ hist'  = Append(hist, IF mode = "copy" THEN <<"F", r, s>> ELSE <<"F", r, s, mode>>)
  /\ UNCHANGED <<U, ident, bad>>

(***************************************************************************)
(* Load: replica r is replaced by a log read back from the block store     *)
(* (log.go NewFromEntry / NewFromJSON / NewFromEntryHash /                 *)
(* NewFromMultihash), starting from the heads of replica s - all of them,  *)
(* or the single head h for "hash".  The loader follows next and refs, so  *)
(* the result is the causal closure of its starting points; every block of *)
(* U is in the store (a refused append leaves its block, a refused write   *)
(* creates no entry).  What the code does with the clock: NewLog takes the *)
(* maximum over LogOptions.Heads, which only NewFromMultihash passes - the *)
(* other loaders pass entries only, heads are derived afterwards and the   *)
(* clock of the new log starts at 0 (Append still takes the maximum with   *)
(* the heads, so C04 is unaffected as long as it looks at ALL heads).      *)
(***************************************************************************)
LoadFrom(s, k, h) == IF k = "hash" THEN {h} ELSE SeqRange(heads[s])
Load(r, s, k, h) ==
  /\ CanOp /\ r \in ForkOn /\ k \in LoadKinds /\ Lid[r] = Lid[s] /\ ents[s] # {}
  /\ bad[r] = {} /\ bad[s] = {}
  /\ h \in SeqRange(heads[s]) /\ (k # "hash" => h = heads[s][1])
  /\ LET from == LoadFrom(s, k, h)
         got  == from \cup UNION {PastOf(U, x) : x \in from}
         hs   == MaximalOf(U, got)
     IN /\ ents'  = [ents EXCEPT ![r] = got]
        /\ heads' = [heads EXCEPT ![r] = SortIds(U, Fn, SetAsSeq(hs), TRUE)]
        /\ nidx'  = [nidx EXCEPT ![r] = NextsOf(U, got)]
        /\ clk'   = [clk EXCEPT ![r] = IF k = "mh" THEN MaxTimeOf(U, heads[s], 0) ELSE 0]
  /\ pure'  = [pure EXCEPT ![r] = pure[s]]
  /\ hist'  = Append(hist, <<"L", r, s, k, h>>)
  /\ UNCHANGED <<U, ident, bad>>

(***************************************************************************)
(* Publish (log_io.go toMultihash): writes the manifest block {id, heads}. *)
(* It changes no replica; the store only grows (C17 looks at the writes of *)
(* the real run).  An empty log cannot be published (error).               *)
(***************************************************************************)
Publish(r) ==
  /\ CanOp /\ r \in PubOn
  /\ hist # <<>> => hist[Len(hist)] # <<"P", r>>          \* publishing twice in a row adds nothing
  /\ hist' = Append(hist, <<"P", r>>)
  /\ UNCHANGED core

\* the store refuses the manifest block: ToMultihash returns the error, nothing is published
PublishWriteFault(r) ==
  /\ CanOp /\ r \in PubOn /\ WriteFaults /\ ents[r] # {}
  /\ hist # <<>> => hist[Len(hist)] # <<"PF", r>>
  /\ hist' = Append(hist, <<"PF", r>>)
  /\ UNCHANGED core

(***************************************************************************)
(* Tamper: an adversarial replica rebuilds its log (NewLog with Entries and *)
(* Heads) with one entry replaced by an altered copy that keeps the hash:  *)
(* no signature, a wrong signature, no key, another key, an edited payload *)
(* or another log id.  Structure (ids, next) is unchanged; only a          *)
(* "foreign" copy changes what difference() does with it.                  *)
(***************************************************************************)
Tamper(r, x, k) ==
  /\ CanOp
  /\ r \in Evil /\ x \in ents[r] /\ x \notin BadIds(r)
  /\ Cardinality(UNION {bad[q] : q \in R}) < MaxBad
  /\ bad'  = [bad EXCEPT ![r] = @ \cup {<<x, k>>}]
  /\ pure' = [pure EXCEPT ![r] = @ /\ k # "foreign"]
  /\ hist' = Append(hist, <<"T", r, x, k>>)
  /\ UNCHANGED <<U, ents, heads, nidx, clk, ident>>

(***************************************************************************)
(* Iterator (log.go l.416-503): a pure function of the log and the options *)
(* - the model only records the call.  The option space is the quantifier  *)
(* of C15 (plus unknown upper bounds).                                     *)
(***************************************************************************)
IterOptions(r) ==
  LET L == ents[r]
      uppers == {[lte |-> <<>>, lt |-> <<>>]}
                \cup {[lte |-> <<a>>, lt |-> <<>>] : a \in DOMAIN U}
                \cup {[lte |-> <<q[1], q[2]>>, lt |-> <<>>] : q \in {p \in L \X L : p[1] # p[2]}}
                \cup {[lte |-> <<>>, lt |-> <<a>>] : a \in DOMAIN U}
      lowersOf(u) ==
        IF IterUnknown(U, L, [lte |-> u.lte, lt |-> u.lt]) THEN {<<0, 0>>}
        ELSE LET Rng == IterRange(U, L, IterUpper(U, SeqRange(heads[r]), [lte |-> u.lte, lt |-> u.lt]))
             IN {<<0, 0>>} \cup {<<x, 0>> : x \in Rng} \cup {<<0, x>> : x \in Rng}
      amounts == (0 - 1)..(Cardinality(L) + 1)
  IN UNION {{[lte |-> u.lte, lt |-> u.lt, gte |-> lo[1], gt |-> lo[2], amount |-> a] :
               lo \in lowersOf(u), a \in amounts} : u \in uppers}

Iterate(r, o) ==
  /\ CanOp
  /\ IterInScope(U, ents[r], SeqRange(heads[r]), o)
  /\ hist' = Append(hist, <<"I", r, o>>)
  /\ UNCHANGED core

Next ==
  \/ \E r \in ForkOn, s \in R, mode \in ForkModes : Fork(r, s, mode)
  \/ \E r \in ForkOn, s \in R, k \in LoadKinds : \E h \in SeqRange(heads[s]) : Load(r, s, k, h)
  \/ \E r \in PubOn : Publish(r) \/ PublishWriteFault(r)
  \/ \E r \in Evil, k \in Kinds : \E x \in ents[r] : Tamper(r, x, k)
  \/ \E r \in IterOn : \E o \in IterOptions(r) : Iterate(r, o)
  \/ \E r \in R, pc \in PCs, pl \in Payloads : AppendOk(r, pc, pl) \/ AppendDenied(r, pc, pl) \/ AppendWriteFault(r, pc, pl)
  \/ \E r, s \in R : JoinNoop(r, s) \/ JoinOk(r, s, -1) \/ JoinFail(r, s, -1)
  \/ \E r, s \in R, n \in Sizes : JoinOk(r, s, n) \/ JoinFail(r, s, n)
  \/ \E r \in R, w \in Writers : SetIdentity(r, w)

Spec == Init /\ [][Next]_vars

(***************************************************************************)
(* Export of explored histories: one JSON line per distinct view.          *)
(***************************************************************************)
LastOp == IF hist = <<>> THEN <<>> ELSE hist[Len(hist)]
\* Len(hist) is part of the view: the MaxOps bound depends on it, so two histories of
\* different length must not be identified (otherwise the explored set depends on worker timing)
View ==
  IF hist # <<>> /\ LastOp[1] = "I"
  THEN LET r == LastOp[2] IN <<"I", [x \in ents[r] |-> U[x]], heads[r], LastOp[3]>>   \* only the iterated log matters
  ELSE <<core, LastOp, Len(hist)>>
Export == IF hist = <<>> THEN TRUE ELSE PrintT("HIST " \o ToJson(hist))

-----------------------------------------------------------------------------
(***************************************************************************)
(* Properties.  "Pure" replicas are those whose state comes from appends   *)
(* and unbounded merges only - the scope of C01..C05.                      *)
(***************************************************************************)
Vals(r) == ValuesOf(U, Fn, ents[r], heads[r])
HeadSet(r) == SeqRange(heads[r])

TypeOK ==
  /\ \A r \in R : ents[r] \subseteq DOMAIN U /\ HeadSet(r) \subseteq DOMAIN U

\* C02
C02_HeadsAreMaximal == \A r \in R : pure[r] => HeadSet(r) = MaximalOf(U, ents[r])
C02_NonEmpty        == \A r \in R : pure[r] /\ ents[r] # {} => heads[r] # <<>>
C02_HeadsInLog      == \A r \in R : pure[r] => HeadSet(r) \subseteq ents[r]
C02_NoDupHeads      == \A r \in R : Len(heads[r]) = Cardinality(HeadSet(r))
\* supporting invariants of the transcription
NidxExact == \A r \in R : pure[r] => nidx[r] = NextsOf(U, ents[r])
Closed    == \A r \in R : pure[r] => ClosedIn(U, ents[r])
\* (what Append bases the next time on: the log clock or its heads - a loaded log starts with clock 0)
ClockDominates == \A r \in R : pure[r] => \A x \in ents[r] : U[x].t <= MaxInt(clk[r], MaxTimeOf(U, heads[r], 0))
ClockMonotoneAlongNext == \A x \in DOMAIN U : \A n \in SeqRange(U[x].next) : U[n].t < U[x].t

\* C03
C03_Permutation == \A r \in R : pure[r] => IsPermutationOf(Vals(r), ents[r])
C03_Causal ==
  \A r \in R : pure[r] =>
    LET v == Vals(r) IN
    \A i, j \in DOMAIN v : i < j => v[j] \notin PastOf(U, v[i]) /\ v[j] \notin SeqRange(U[v[i]].next)
C03_Sorted ==
  \A r \in R : pure[r] =>
    LET v == Vals(r) IN
    \A i, j \in DOMAIN v : i < j => ~(Cmp(Fn, U[v[j]], U[v[i]]) < 0 /\ Cmp(Fn, U[v[i]], U[v[j]]) > 0)

\* C01 (state form): same entries => same heads, and same values when the order is strict
C01_SameEntriesSameView ==
  \A r, s \in R : pure[r] /\ pure[s] /\ Lid[r] = Lid[s] /\ ents[r] = ents[s] =>
     /\ HeadSet(r) = HeadSet(s)
     /\ StrictOn(U, Fn, ents[r]) => Vals(r) = Vals(s)

\* C01/C05 (action form)
IsJoin   == hist' # hist /\ hist'[Len(hist')][1] = "J"
JoinDst  == hist'[Len(hist')][2]
JoinSrc  == hist'[Len(hist')][3]
C01_JoinIsUnion ==
  [][IsJoin =>
        LET r == JoinDst  s == JoinSrc IN
        (r # s /\ Lid[r] = Lid[s] /\ pure[r] /\ pure[s] /\ CandidatesValid(r, s))
          => ents'[r] = ents[r] \cup ents[s]]_vars
C01_NoOpJoins ==
  [][IsJoin =>
        LET r == JoinDst  s == JoinSrc IN
        (r = s \/ Lid[r] # Lid[s] \/ ents[s] = {} \/ ents[s] \subseteq ents[r]) /\ pure[r] /\ pure[s]
          => ents'[r] = ents[r] /\ SeqRange(heads'[r]) = HeadSet(r)]_vars

\* (a Fork replaces replica r by a new log instance)
Forked(r) == hist' # hist /\ hist'[Len(hist')][1] \in {"F", "L"} /\ hist'[Len(hist')][2] = r
C05_EntriesMonotone ==
  [][\A r \in R : pure'[r] /\ ~Forked(r) => ents[r] \subseteq ents'[r]]_vars
C05_ValuesSubsequence ==
  [][\A r \in R : pure'[r] /\ ~Forked(r) /\ StrictOn(U', Fn, ents'[r]) =>
        IsSubsequence(Vals(r), ValuesOf(U', Fn, ents'[r], heads'[r]))]_vars
C05_OthersUntouched ==
  [][\A r \in R : hist' # hist /\ hist'[Len(hist')][2] # r =>
        ents'[r] = ents[r] /\ heads'[r] = heads[r] /\ clk'[r] = clk[r]]_vars

\* C04 (action form): the entry an append creates
IsAppend == Len(U') = Len(U) + 1
C04_Append ==
  [][IsAppend =>
       LET id == Len(U')  e == U'[id]  r == hist'[Len(hist')][2]  pc == hist'[Len(hist')][3] IN
       /\ SeqRange(e.next) = HeadSet(r)
       /\ Len(e.next) = Cardinality(HeadSet(r))
       /\ e.w = ident[r]
       /\ \A x \in ents[r] : U[x].t < e.t
       /\ ents'[r] # ents[r] => heads'[r] = <<id>>
       /\ SeqRange(e.refs) \subseteq PastOf(U', id)
       /\ SeqRange(e.refs) \cap SeqRange(e.next) = {}
       /\ Len(e.refs) = Cardinality(SeqRange(e.refs))
       /\ \A k \in 0..8 : (pc < 2^(k+1)) => Len(e.refs) <= k + 2]_vars

\* C06: a successful join never admits a tampered copy, a denied writer or a foreign id;
\* a join none of whose candidates is bad succeeds (JoinOk is then the enabled action)
C06_OnlyValidAdded ==
  [][\A r \in R : \A x \in ents'[r] \ ents[r] :
        LET op == hist'[Len(hist')] IN
        op[1] \in {"J", "JB"} =>
          /\ x \notin Invalid(op[3]) /\ <<x, "foreign">> \notin bad[op[3]]
          /\ U[x].w \notin Denied[r] /\ U[x].lid = Lid[r]]_vars
C06_HeadsStayInLog ==
  \A r \in R : bad[r] = {} => HeadSet(r) \subseteq ents[r]    \* also after merging from tampered sources

\* C17 (design level): an entry only ever links to entries created before it, so a store that
\* receives each block when it is created is causally closed after every write
C17_LinksPointBack ==
  \A x \in DOMAIN U : \A y \in SeqRange(U[x].next) \cup SeqRange(U[x].refs) : y < x

\* C15: the transcription of Iterator meets its declarative specification
C15_AlgoMeetsSpec ==
  hist # <<>> /\ LastOp[1] = "I" =>
     LET r == LastOp[2]  o == LastOp[3] IN
     pure[r] => IterMeetsSpec(U, Fn, ents[r], HeadSet(r), o, IterAlgo(U, Fn, ents[r], heads[r], o))

\* C16: a bounded join keeps the last n of what the unbounded join gives
IsBJoin == hist' # hist /\ hist'[Len(hist')][1] = "JB"
C16_Bounded ==
  [][IsBJoin /\ core' # core =>
       LET op == hist'[Len(hist')]  r == op[2]  s == op[3]  n == op[4]
           ub == JoinResult(U, Fn, St(r), Src(s), Lid[r], -1)
           v  == ValuesOf(U, Fn, ub.ents, ub.heads)
           k  == MinInt(n, Len(v))
           want == {v[i] : i \in (Len(v) - k + 1)..Len(v)}
       IN pure[r] /\ pure[s] =>
          /\ ents'[r] = want
          /\ SeqRange(heads'[r]) = MaximalOf(U, want)]_vars

=============================================================================
