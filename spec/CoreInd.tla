------------------------------- MODULE CoreInd -------------------------------
(***************************************************************************)
(* A sets-only abstraction of the log CRDT (Append and unbounded Join of   *)
(* IpfsLog.tla, without clocks, orders and sequences) with an INDUCTIVE    *)
(* invariant for C02 ("heads are exactly the unreferenced entries") and    *)
(* its supporting facts.  Checked with Apalache:                           *)
(*                                                                         *)
(*   apalache-mc check --init=IndInit --inv=IndInv --length=1 CoreInd.tla  *)
(*   apalache-mc check --init=Init    --inv=IndInv --length=0 CoreInd.tla  *)
(*                                                                         *)
(* i.e. IndInv holds initially and is preserved by every step from EVERY   *)
(* state satisfying it - all DAGs over the entry universe 1..N, not only   *)
(* the histories a bounded TLC run reaches.  The Join step uses the three  *)
(* head filters of the code (FindHeads of the two head sets, minus the     *)
(* predecessors of the new items, minus the reverse index).                *)
(***************************************************************************)
EXTENDS Integers, FiniteSets

CONSTANTS
  \* @type: Int;
  N,
  \* @type: Int;
  NR

Ids == 1..N
R   == 1..NR

VARIABLES
  \* @type: Set(Int);
  created,
  \* @type: Int -> Set(Int);
  nxt,
  \* @type: Int -> Set(Int);
  ents,
  \* @type: Int -> Set(Int);
  heads,
  \* @type: Int -> Set(Int);
  nidx

vars == <<created, nxt, ents, heads, nidx>>

\* @type: (Set(Int)) => Set(Int);
Nexts(S) == UNION {nxt[x] : x \in S}
\* @type: (Set(Int)) => Set(Int);
Maximal(S) == {e \in S : \A f \in S : e \notin nxt[f]}

Init ==
  /\ created = {}
  /\ nxt = [x \in Ids |-> {}]
  /\ ents = [r \in R |-> {}]
  /\ heads = [r \in R |-> {}]
  /\ nidx = [r \in R |-> {}]

\* the new entry takes the smallest unused id: predecessors always have smaller ids (acyclicity)
DoAppend(r) ==
  \E x \in Ids :
    /\ x \notin created
    /\ \A y \in created : y < x
    /\ created' = created \cup {x}
    /\ nxt' = [nxt EXCEPT ![x] = heads[r]]
    /\ ents' = [ents EXCEPT ![r] = @ \cup {x}]
    /\ heads' = [heads EXCEPT ![r] = {x}]
    /\ nidx' = [nidx EXCEPT ![r] = @ \cup heads[r]]

Join(r, s) ==
  /\ r # s
  /\ LET new    == ents[s] \ ents[r]
         nidx1  == nidx[r] \cup Nexts(new)
         merged == Maximal(heads[r] \cup heads[s])                 \* entry.FindHeads of the merged head maps
         hs     == {h \in merged : h \notin Nexts(new) /\ h \notin nidx1 /\ h \in (ents[r] \cup new)}
     IN /\ ents' = [ents EXCEPT ![r] = @ \cup new]
        /\ nidx' = [nidx EXCEPT ![r] = nidx1]
        /\ heads' = [heads EXCEPT ![r] = hs]
  /\ UNCHANGED <<created, nxt>>

Next == \E r \in R : DoAppend(r) \/ \E s \in R : Join(r, s)

TypeOK ==
  /\ created \subseteq Ids
  /\ nxt \in [Ids -> SUBSET Ids]
  /\ ents \in [R -> SUBSET Ids]
  /\ heads \in [R -> SUBSET Ids]
  /\ nidx \in [R -> SUBSET Ids]

IndInv ==
  /\ TypeOK
  /\ \A x \in Ids : x \notin created => nxt[x] = {}
  /\ \A x \in created : nxt[x] \subseteq created /\ \A y \in nxt[x] : y < x       \* acyclic
  /\ \A r \in R :
       /\ ents[r] \subseteq created
       /\ \A x \in ents[r] : nxt[x] \subseteq ents[r]                              \* causally closed
       /\ heads[r] = Maximal(ents[r])                                              \* C02
       /\ nidx[r] = Nexts(ents[r])                                                 \* reverse index exact
       /\ (ents[r] # {} => heads[r] # {})

\* an arbitrary state satisfying the invariant (membership form so that Apalache sees the assignments)
IndInit ==
  /\ created \in SUBSET Ids
  /\ nxt \in [Ids -> SUBSET Ids]
  /\ ents \in [R -> SUBSET Ids]
  /\ heads \in [R -> SUBSET Ids]
  /\ nidx \in [R -> SUBSET Ids]
  /\ IndInv

\* C02 as a plain invariant (implied by IndInv)
C02_HeadsAreMaximal == \A r \in R : heads[r] = Maximal(ents[r])
=============================================================================
