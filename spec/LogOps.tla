------------------------------- MODULE LogOps -------------------------------
(***************************************************************************)
(* Pure operators transcribing the algorithms of go-ipfs-log's log CRDT    *)
(* (log.go, entry/utils.go, entry/sorting/sorting.go).  They take the      *)
(* entry universe U explicitly, so that the same text is used              *)
(*   - by IpfsLog.tla  (U is the model's variable, TLC explores histories) *)
(*   - by Trace_IpfsLog.tla (U is what the real code produced; the         *)
(*     observed transition must equal what these operators compute).       *)
(*                                                                         *)
(* U is a function  id -> [w, t, next, refs, h, lid]                       *)
(*   w    rank of the writer's public-key bytes (bytes.Compare order)      *)
(*   t    Lamport time                                                     *)
(*   next sequence of predecessor ids (order as stored in the entry)       *)
(*   refs sequence of skip-reference ids                                   *)
(*   h    rank of the entry's CID string among all CIDs (strings.Compare)  *)
(*   lid  log id                                                           *)
(* Ids that are not in DOMAIN U never occur in next/refs of the models.    *)
(***************************************************************************)
EXTENDS Integers, Sequences, FiniteSets

Sign(x) == IF x < 0 THEN -1 ELSE IF x > 0 THEN 1 ELSE 0

SeqRange(s) == {s[i] : i \in DOMAIN s}

RECURSIVE SetAsSeq(_)
SetAsSeq(S) == IF S = {} THEN <<>> ELSE LET x == CHOOSE y \in S : \A z \in S : y <= z IN <<x>> \o SetAsSeq(S \ {x})

RevSeq(s) == [i \in 1..Len(s) |-> s[Len(s) + 1 - i]]

MaxInt(a, b) == IF a < b THEN b ELSE a
MinInt(a, b) == IF a > b THEN b ELSE a

(***************************************************************************)
(* Comparators (entry/sorting/sorting.go, entry/lamportclock.go).          *)
(* Only the sign of the result is ever used by Sort and NoZeroes.          *)
(***************************************************************************)
\* LamportClock.Compare: time difference, ids compared when equal
ClockCmp(a, b) == IF a.t # b.t THEN a.t - b.t ELSE Sign(a.w - b.w)

\* LastWriteWins = SortByClocks(SortByClockID(First)); First answers 1
LWW(a, b) == LET d == ClockCmp(a, b) IN IF d # 0 THEN d ELSE 1

FWW(a, b) == -LWW(a, b)

\* SortByEntryHash = SortByClocks(SortByClockID(compareHash))
HASH(a, b) == LET d == ClockCmp(a, b) IN IF d # 0 THEN d ELSE Sign(a.h - b.h)

\* sorting.Compare: the clock comparison only (0 on equal clocks)
CLK(a, b) == ClockCmp(a, b)

Cmp(fn, a, b) ==
  CASE fn = "LWW"  -> LWW(a, b)
    [] fn = "FWW"  -> FWW(a, b)
    [] fn = "HASH" -> HASH(a, b)
    [] fn = "CLK"  -> CLK(a, b)

\* The comparator is a strict total order on the entry set S
\* (always for HASH; for LWW/FWW iff no two distinct entries share (t, w)).
StrictOn(U, fn, S) ==
  \A x, y \in S : x # y =>
     /\ Cmp(fn, U[x], U[y]) # 0
     /\ Sign(Cmp(fn, U[x], U[y])) = -Sign(Cmp(fn, U[y], U[x]))

(***************************************************************************)
(* sorting.Sort = sort.SliceStable, which for n <= 20 is a plain insertion *)
(* sort; less(i,j) is "cmp > 0" when reverse and "cmp < 0" otherwise, and  *)
(* a comparison error (NoZeroes on a 0 result) counts as "not less".       *)
(* Transcribed literally so that the model also says what happens when the *)
(* comparator is not antisymmetric (LWW ties).                             *)
(***************************************************************************)
LessR(U, fn, x, y, rev) ==
  LET c == Cmp(fn, U[x], U[y]) IN IF rev THEN c > 0 ELSE c < 0

Swap(s, i, j) == [s EXCEPT ![i] = s[j], ![j] = s[i]]

RECURSIVE InsertBack(_, _, _, _, _)
InsertBack(U, fn, rev, s, j) ==
  IF j > 1 /\ LessR(U, fn, s[j], s[j - 1], rev)
  THEN InsertBack(U, fn, rev, Swap(s, j, j - 1), j - 1)
  ELSE s

RECURSIVE InsSortFrom(_, _, _, _, _)
InsSortFrom(U, fn, rev, s, i) ==
  IF i > Len(s) THEN s
  ELSE InsSortFrom(U, fn, rev, InsertBack(U, fn, rev, s, i), i + 1)

SortIds(U, fn, s, rev) == InsSortFrom(U, fn, rev, s, 2)

(***************************************************************************)
(* IPFSLog.traverse (log.go): priority walk from the roots.                *)
(*   L      the set of entries indexed by the log (l.Entries)              *)
(*   roots  sequence (ordered map order)                                   *)
(*   amount -1 = all                                                       *)
(*   endId  0 = none                                                       *)
(* The result is the key order of the ordered map `result`.  Note that the *)
(* roots are not marked as traversed before they are popped, so a root     *)
(* that is also a predecessor of another root is pushed a second time and  *)
(* counted twice - transcribed as is.                                      *)
(***************************************************************************)
RECURSIVE PushNexts(_, _, _, _, _)
\* acc = [st |-> stack, seen |-> set, mod |-> BOOLEAN]
PushNexts(L, nx, i, acc, dummy) ==
  IF i > Len(nx) THEN acc
  ELSE LET c == nx[i] IN
       IF c \notin L \/ c \in acc.seen
       THEN PushNexts(L, nx, i + 1, acc, dummy)
       ELSE PushNexts(L, nx, i + 1,
                      [st |-> <<c>> \o acc.st, seen |-> acc.seen \cup {c}, mod |-> TRUE],
                      dummy)

RECURSIVE TravLoop(_, _, _, _, _, _, _, _, _)
TravLoop(U, fn, L, stack, seen, res, count, amount, endId) ==
  IF stack = <<>> \/ (amount >= 0 /\ count >= amount) THEN res
  ELSE LET e    == Head(stack)
           st1  == Tail(stack)
           res1 == IF e \in SeqRange(res) THEN res ELSE Append(res, e)
           sn1  == seen \cup {e}
       IN IF e = endId THEN res1
          ELSE LET pr  == PushNexts(L, U[e].next, 1, [st |-> st1, seen |-> sn1, mod |-> FALSE], 0)
                   st2 == IF pr.mod THEN SortIds(U, fn, pr.st, TRUE) ELSE pr.st
               IN TravLoop(U, fn, L, st2, pr.seen, res1, count + 1, amount, endId)

Traverse(U, fn, L, roots, amount, endId) ==
  TravLoop(U, fn, L, SortIds(U, fn, roots, TRUE), {}, <<>>, 0, amount, endId)

\* IPFSLog.values(): the walk from the raw heads, reversed (oldest first)
ValuesOf(U, fn, L, headSeq) == RevSeq(Traverse(U, fn, L, headSeq, -1, 0))

(***************************************************************************)
(* entry.FindHeads: entries of the ordered map that no entry of the map    *)
(* names in its next, in key order, then stably sorted by clock id.        *)
(***************************************************************************)
NextsOf(U, S) == UNION {SeqRange(U[x].next) : x \in S}

RECURSIVE FilterSeq(_, _)
FilterSeq(s, keep) ==
  IF s = <<>> THEN <<>>
  ELSE IF Head(s) \in keep THEN <<Head(s)>> \o FilterSeq(Tail(s), keep)
       ELSE FilterSeq(Tail(s), keep)

RECURSIVE StableByW(_, _, _)
\* stable insertion sort on the writer rank (sort.SliceStable with bytes.Compare < 0)
StableByWIns(U, s, j) ==
  LET RECURSIVE Go(_, _)
      Go(ss, k) == IF k > 1 /\ U[ss[k]].w < U[ss[k - 1]].w THEN Go(Swap(ss, k, k - 1), k - 1) ELSE ss
  IN Go(s, j)
StableByW(U, s, i) == IF i > Len(s) THEN s ELSE StableByW(U, StableByWIns(U, s, i), i + 1)

FindHeadsSeq(U, keys) ==
  LET S == SeqRange(keys)
      referenced == NextsOf(U, S)
  IN StableByW(U, FilterSeq(keys, S \ referenced), 2)

\* OrderedMap.Merge: keys of a, then the keys of b not yet present
RECURSIVE DedupSeq(_, _)
DedupSeq(s, seen) ==
  IF s = <<>> THEN <<>>
  ELSE IF Head(s) \in seen THEN DedupSeq(Tail(s), seen)
       ELSE <<Head(s)>> \o DedupSeq(Tail(s), seen \cup {Head(s)})

MergeKeys(a, b) == DedupSeq(a \o b, {})

(***************************************************************************)
(* difference() in log.go: entries of the source reachable from its heads  *)
(* along next through entries that the destination lacks and that carry    *)
(* the destination's log id.  The walk stops at entries the destination    *)
(* has, at entries the source does not index, and at foreign-id entries    *)
(* (and therefore never looks below those).                                *)
(***************************************************************************)
RECURSIVE DiffLoop(_, _, _, _, _, _, _)
DiffLoop(U, entsA, entsB, lidB, stack, trav, res) ==
  IF stack = <<>> THEN res
  ELSE LET x   == Head(stack)
           st1 == Tail(stack)
       IN IF x \in entsA /\ x \notin entsB /\ U[x].lid = lidB
          THEN LET RECURSIVE Push(_, _, _)
                   Push(i, st, tr) ==
                     IF i > Len(U[x].next) THEN [st |-> st, tr |-> tr]
                     ELSE LET c == U[x].next[i] IN
                          IF c \notin tr /\ c \notin entsB
                          THEN Push(i + 1, Append(st, c), tr \cup {c})
                          ELSE Push(i + 1, st, tr)
                   p == Push(1, st1, trav \cup {x})
               IN DiffLoop(U, entsA, entsB, lidB, p.st, p.tr,
                           IF x \in SeqRange(res) THEN res ELSE Append(res, x))
          ELSE DiffLoop(U, entsA, entsB, lidB, st1, trav, res)

\* sequence = key order of the ordered map `res`
Difference(U, entsA, headsA, entsB, lidB) ==
  IF entsA = {} \/ headsA = <<>> THEN <<>>
  ELSE DiffLoop(U, entsA, entsB, lidB, headsA, {}, <<>>)

(***************************************************************************)
(* Join, unbounded part (log.go l.527-595, 608-615).                       *)
(*   dst = [ents, heads (seq), nidx, clk]   src = [ents, heads (seq)]      *)
(* Validation is not part of this operator: the caller decides whether the *)
(* candidates are all valid (Join) or not (JoinFail, state unchanged).     *)
(***************************************************************************)
JoinCandidates(U, dst, src, lid) == Difference(U, src.ents, src.heads, dst.ents, lid)

JoinApply(U, dst, src, lid) ==
  LET new     == JoinCandidates(U, dst, src, lid)
      newS    == SeqRange(new)
      ents1   == dst.ents \cup newS
      nidx1   == dst.nidx \cup NextsOf(U, newS)
      \* since the repairs of the foreign-head defects only entries the log holds take part: a head of the
      \* source that was skipped (foreign log id) neither becomes a head nor retires one
      allH    == MergeKeys(dst.heads, src.heads)
      merged  == FindHeadsSeq(U, FilterSeq(allH, SeqRange(allH) \cap ents1))
      \* notReferencedByNewItems, notInCurrentNexts (the reverse index after the update)
      heads1  == FilterSeq(merged, (SeqRange(merged) \ (NextsOf(U, newS) \cup nidx1)) \cap ents1)
  IN [ents |-> ents1, heads |-> heads1, nidx |-> nidx1, new |-> new]

MaxTimeOf(U, s, def) ==
  LET RECURSIVE Go(_, _)
      Go(i, m) == IF i > Len(s) THEN m ELSE Go(i + 1, MaxInt(U[s[i]].t, m))
  IN Go(1, def)

JoinResult(U, fn, dst, src, lid, size) ==
  LET a == JoinApply(U, dst, src, lid)
  IN IF size < 0
     THEN [ents |-> a.ents, heads |-> a.heads, nidx |-> a.nidx,
           clk |-> MaxInt(dst.clk, MaxTimeOf(U, a.heads, 0)), new |-> a.new, panic |-> FALSE]
     ELSE \* bounded: keep the last min(size, len) of the linearisation (the bound is clamped since
          \* the repair of the slice-bounds panic); the reverse index is NOT recomputed
          LET vals   == ValuesOf(U, fn, a.ents, a.heads)
              k      == MinInt(size, Len(vals))
              tmp    == SubSeq(vals, Len(vals) - k + 1, Len(vals))
              heads2 == FindHeadsSeq(U, tmp)
          IN [ents |-> SeqRange(tmp), heads |-> heads2, nidx |-> a.nidx,
              clk |-> MaxInt(dst.clk, MaxTimeOf(U, heads2, 0)), new |-> a.new, panic |-> FALSE]

(***************************************************************************)
(* Append (log.go l.303-398): clock, next, skip references.                *)
(***************************************************************************)
\* getEveryPow2(all, maxDistance): all[min(len-1, i-1)] for i = 1, 2, 4, ... <= maxDistance
EveryPow2(all, maxDistance) ==
  LET RECURSIVE Go(_, _)
      Go(i, acc) == IF i > maxDistance THEN acc
                    ELSE LET idx == MinInt(Len(all) - 1, i - 1) IN
                         IF idx < 0 THEN Go(i * 2, acc)           \* all.At(uint(-1)) is nil: skipped
                         ELSE Go(i * 2, Append(acc, all[idx + 1]))
  IN Go(1, <<>>)

AppendPlan(U, fn, st, pc) ==
  LET hs    == SortIds(U, fn, st.heads, TRUE)                     \* sortedHeads
      newT  == MaxInt(st.clk, MaxTimeOf(U, hs, 0)) + 1
      all   == Traverse(U, fn, st.ents, hs, MaxInt(pc, Len(hs)), 0)
      refs0 == EveryPow2(all, MinInt(pc, Len(all)))
      refs1 == IF Len(all) < pc /\ Len(all) > 0 THEN Append(refs0, all[Len(all)]) ELSE refs0
      next  == RevSeq(hs)                                         \* each head is prepended
      refs2 == FilterSeq(refs1, SeqRange(refs1) \ SeqRange(next))
  IN [t |-> newT, next |-> DedupSeq(next, {}), refs |-> DedupSeq(refs2, {})]  \* Copy() de-duplicates

(***************************************************************************)
(* ToString (log.go) indents every line by the number of entries           *)
(* entry.FindChildren returns: starting from x, repeatedly the FIRST entry *)
(* of vals that names the current one as a predecessor.                    *)
(***************************************************************************)
FirstChild(U, x, vals) ==
  LET I == {i \in DOMAIN vals : x \in SeqRange(U[vals[i]].next)}
  IN IF I = {} THEN 0 ELSE vals[CHOOSE i \in I : \A j \in I : i <= j]
RECURSIVE ChildChainLen(_, _, _)
ChildChainLen(U, x, vals) ==
  LET c == FirstChild(U, x, vals) IN IF c = 0 THEN 0 ELSE 1 + ChildChainLen(U, c, vals)

(***************************************************************************)
(* Declarative notions used by the property predicates (never by the       *)
(* transcriptions above).                                                  *)
(***************************************************************************)
\* strict causal past of x inside the universe (all predecessors, transitively)
RECURSIVE PastOf(_, _)
PastOf(U, x) ==
  LET ns == SeqRange(U[x].next) \cap DOMAIN U
  IN ns \cup UNION {PastOf(U, n) : n \in ns}

\* the entries of S nothing else in S points to
MaximalOf(U, S) == {e \in S : \A f \in S : e \notin SeqRange(U[f].next)}

\* S contains, with each entry, all its predecessors (causally closed)
ClosedIn(U, S) == \A e \in S : SeqRange(U[e].next) \subseteq S

IsPermutationOf(s, S) == Len(s) = Cardinality(S) /\ SeqRange(s) = S

\* s (duplicate-free) keeps the relative order of every pair it shares with t
IsSubsequence(s, t) ==
  /\ SeqRange(s) \subseteq SeqRange(t)
  /\ \A i, j \in DOMAIN s : i < j =>
        \E a, b \in DOMAIN t : a < b /\ t[a] = s[i] /\ t[b] = s[j]


(***************************************************************************)
(* Iterator (log.go l.416-503).  Options record                            *)
(*   o = [lte |-> seq, lt |-> seq, gte |-> id or 0, gt |-> id or 0,        *)
(*        amount |-> n or -1]                                              *)
(* Result record [out, closed, err, panic].                                *)
(* IterAlgo transcribes the code (after the repairs: the early return for  *)
(* amount = 0 is gone and the amount trim is clamped); IterMeetsSpec is    *)
(* the declarative statement of C15.                                       *)
(***************************************************************************)
IterUnknown(U, L, o) ==
  IF o.lte # <<>> THEN \E x \in SeqRange(o.lte) : x \notin L
  ELSE IF o.lt # <<>> THEN \E c \in SeqRange(o.lt) : c \notin L \/ \E n \in SeqRange(U[c].next) : n \notin L
  ELSE FALSE

IterAlgo(U, fn, L, headsRaw, o) ==
  IF IterUnknown(U, L, o)
  THEN [out |-> <<>>, closed |-> FALSE, err |-> "notfound", panic |-> FALSE]
  ELSE LET start == IF o.lte # <<>> THEN o.lte
                    ELSE IF o.lt # <<>> THEN U[o.lt[Len(o.lt)]].next   \* only the last LT entry counts
                    ELSE SortIds(U, fn, headsRaw, TRUE)
           endId == IF o.gte # 0 THEN o.gte ELSE o.gt
           count == IF endId = 0 /\ o.amount >= 0 THEN o.amount ELSE -1
           e0 == Traverse(U, fn, L, DedupSeq(start, {}), count, endId)
           e1 == IF o.gt # 0 /\ o.gte = 0 /\ Len(e0) > 0 THEN SubSeq(e0, 1, Len(e0) - 1) ELSE e0
           e2 == IF endId # 0 /\ o.amount >= 0 /\ o.amount < Len(e1)
                 THEN SubSeq(e1, Len(e1) - o.amount + 1, Len(e1)) ELSE e1
       IN [out |-> e2, closed |-> TRUE, err |-> "", panic |-> FALSE]

IterUpper(U, headSet, o) ==
  IF o.lte # <<>> THEN SeqRange(o.lte)
  ELSE IF o.lt # <<>> THEN SeqRange(U[o.lt[1]].next)
  ELSE headSet

IterRange(U, L, Up) == (Up \cup UNION {PastOf(U, x) : x \in Up}) \cap L

\* the options are inside the quantifier of C15: at most one exclusive upper bound, not both kinds of
\* upper bound, not both kinds of lower bound, and the lower bound (if any) inside the selected range
IterInScope(U, L, headSet, o) ==
  /\ Len(o.lt) <= 1
  /\ ~(o.lte # <<>> /\ o.lt # <<>>)
  /\ ~(o.gte # 0 /\ o.gt # 0)
  /\ IterUnknown(U, L, o) \/
       LET lower == IF o.gte # 0 THEN o.gte ELSE o.gt
       IN lower = 0 \/ lower \in IterRange(U, L, IterUpper(U, headSet, o))

IterMeetsSpec(U, fn, L, headSet, o, res) ==
  /\ ~res.panic
  /\ IterUnknown(U, L, o) <=> res.err # ""
  /\ res.err = "" => res.closed
  /\ res.err = "" =>
       LET Up     == IterUpper(U, headSet, o)
           Rng    == IterRange(U, L, Up)
           lower  == IF o.gte # 0 THEN o.gte ELSE o.gt
           strict == StrictOn(U, fn, Rng)
           Cut    == IF lower = 0 THEN Rng
                     ELSE {e \in Rng : e = lower \/ Cmp(fn, U[e], U[lower]) > 0} \ (IF o.gt # 0 THEN {lower} ELSE {})
           out    == res.out
           O      == SeqRange(out)
           antichain == \A a, b \in Up : a \notin PastOf(U, b)
       IN /\ Len(out) = Cardinality(O)                                   \* no duplicates
          /\ O \subseteq Rng
          /\ o.amount >= 0 => Len(out) <= o.amount
          /\ strict =>
               /\ \A i, j \in DOMAIN out : i < j => Cmp(fn, U[out[i]], U[out[j]]) > 0   \* newest first
               /\ O \subseteq Cut
               /\ IF o.amount < 0 THEN O = Cut
                  ELSE /\ (lower # 0 \/ antichain) => Len(out) = MinInt(o.amount, Cardinality(Cut))
                       /\ IF lower = 0
                          THEN \A e \in Cut \ O, f \in O : Cmp(fn, U[f], U[e]) > 0      \* the newest
                          ELSE \A e \in Cut \ O, f \in O : Cmp(fn, U[e], U[f]) > 0      \* nearest the lower bound

=============================================================================
