------------------------------- MODULE Fetcher -------------------------------
(***************************************************************************)
(* The concurrent block loader of go-ipfs-log (entry/fetcher.go,           *)
(* entry/queue.go): a main loop that pops hashes from a priority queue and *)
(* launches one goroutine per hash under a counting semaphore, workers     *)
(* that fetch a block from an unreliable store and then, under the process *)
(* mutex, admit the entry and enqueue its predecessors and references.     *)
(*                                                                         *)
(* Steps are the real critical sections:                                   *)
(*   MainStep     the main loop from one blocking point to the next; it    *)
(*                holds the process mutex while it runs AND while it is    *)
(*                blocked in sem.Acquire (pc = "acq"), so no worker can    *)
(*                publish a result then                                    *)
(*   FetchDone(h) Dag().Get returns for h; the slot is released before     *)
(*                the worker takes the mutex (processDone precedes Lock)   *)
(*   Process(h)   the worker's locked block (updateClock, admission,       *)
(*                addNextEntry, taskInProgress--, Signal)                  *)
(*   MainWake     condProcess.Wait returns (only after a Signal)           *)
(*   Timeout      the context deadline fires                               *)
(* The queue pops a minimum-priority element; ties are resolved            *)
(* nondeterministically (a superset of container/heap's choice).           *)
(***************************************************************************)
EXTENDS FetchOps, TLC, Json

CONSTANTS
  Instances,       \* sequence of instance records (see FetchOps.tla); Init picks one
  ExportAll        \* export the schedule reaching every state (TRUE) or only finished loads (FALSE)

VARIABLES
  cf,        \* the chosen instance (never changes)
  st,        \* [q, cache, res, minC, maxC, tip]: the state protected by the process mutex
  sem,       \* free slots
  fly,       \* ids whose Get is outstanding
  pend,      \* set of [id, ok]: fetched, slot released, waiting for the process mutex
  main,      \* "run" | "acq" | "wait" | "finalwait" | "done"
  sig,       \* a Signal was sent since main started waiting
  req,       \* set of ids requested from the store so far (history)
  dupReq,    \* some id was requested twice (history)
  timedOut,
  hist       \* the schedule: sequence of scheduler choices, exported for replay

vars == <<cf, st, sem, fly, pend, main, sig, req, dupReq, timedOut, hist>>

Init ==
  /\ cf \in {Instances[i] : i \in DOMAIN Instances}
  /\ st = InitState(cf)
  /\ sem = cf.Conc /\ fly = {} /\ pend = {} /\ main = "run" /\ sig = FALSE
  /\ req = {} /\ dupReq = FALSE /\ timedOut = FALSE /\ hist = <<>>

(***************************************************************************)
(* Main loop.  "run" and "acq" hold the process mutex.                     *)
(***************************************************************************)
Launch(x) ==
  /\ st' = LaunchEffect(st, x)
  /\ fly' = fly \cup {x.id}
  /\ req' = req \cup {x.id}
  /\ dupReq' = (dupReq \/ x.id \in req)
  /\ sem' = sem - 1
  /\ hist' = Append(hist, <<"L", x.id>>)
  \* after a launch:  for queue.Len()==0 && taskInProgress>0 { Wait }  else loop
  /\ main' = IF st.q \ {x} = {} /\ st.tip + 1 > 0 THEN "wait" ELSE "run"
  /\ sig' = FALSE

LeaveLoop ==
  /\ main' = IF st.tip > 0 THEN "finalwait" ELSE "done"
  /\ sig' = FALSE
  /\ UNCHANGED <<st, fly, req, dupReq, sem, hist>>

MainRun ==
  /\ main = "run"
  /\ IF st.q = {} THEN LeaveLoop                       \* loop condition false
     ELSE IF timedOut THEN LeaveLoop                   \* sem.Acquire(ctx) fails: break
          ELSE IF sem = 0
               THEN /\ main' = "acq" /\ UNCHANGED <<st, fly, req, dupReq, sem, sig, hist>>
               ELSE \E x \in Poppable(st.q) : Launch(x)
  /\ UNCHANGED <<cf, pend, timedOut>>

\* blocked in Acquire (holding the mutex) until a slot is free or the deadline fires
MainAcquired ==
  /\ main = "acq"
  /\ \/ /\ sem > 0 /\ ~timedOut /\ \E x \in Poppable(st.q) : Launch(x)
     \/ /\ timedOut /\ LeaveLoop
  /\ UNCHANGED <<cf, pend, timedOut>>

\* condProcess.Wait returns (needs a Signal; the mutex is free because every Process is atomic)
MainWake ==
  /\ main \in {"wait", "finalwait"} /\ sig
  /\ main' = IF main = "wait"
             THEN (IF st.q = {} /\ st.tip > 0 THEN "wait" ELSE "run")
             ELSE (IF st.tip > 0 THEN "finalwait" ELSE "done")
  /\ sig' = FALSE
  /\ hist' = Append(hist, <<"W">>)
  /\ UNCHANGED <<cf, st, sem, fly, pend, req, dupReq, timedOut>>

(***************************************************************************)
(* Workers                                                                 *)
(***************************************************************************)
FetchDone(h) ==
  /\ h \in fly
  /\ (Known(cf, h) /\ cf.Fault[h] = "slow") => timedOut   \* a slow block only ever answers "deadline exceeded"
  /\ fly' = fly \ {h}
  /\ sem' = sem + 1                                       \* processDone() before Lock()
  /\ \E ok \in BOOLEAN :
        /\ ok => Retrievable(cf, h)
        /\ ~ok => (~Retrievable(cf, h) \/ timedOut)         \* after the deadline a Get may or may not still deliver
        /\ pend' = pend \cup {[id |-> h, ok |-> ok]}
  /\ hist' = Append(hist, <<"F", h>>)
  /\ UNCHANGED <<cf, st, main, sig, req, dupReq, timedOut>>

\* the locked block of the worker goroutine, then Signal
Process(pe) ==
  /\ pe \in pend
  /\ main \in {"wait", "finalwait"}                       \* otherwise main holds the mutex
  /\ pend' = pend \ {pe}
  /\ st' = ProcessEffect(cf, st, pe.id, pe.ok)
  /\ sig' = TRUE
  /\ hist' = Append(hist, <<"P", pe.id>>)
  /\ UNCHANGED <<cf, sem, fly, main, req, dupReq, timedOut>>

Timeout ==
  /\ cf.Timeout /\ ~timedOut /\ main # "done"
  /\ timedOut' = TRUE
  /\ hist' = Append(hist, <<"T">>)
  /\ UNCHANGED <<cf, st, sem, fly, pend, main, sig, req, dupReq>>

Next ==
  \/ MainRun \/ MainAcquired \/ MainWake \/ Timeout
  \/ \E h \in fly : FetchDone(h)
  \/ \E pe \in pend : Process(pe)

MaxId == 12
Fairness == /\ WF_vars(MainRun) /\ WF_vars(MainAcquired) /\ WF_vars(MainWake) /\ WF_vars(Timeout)
            /\ \A h1 \in 1..MaxId : WF_vars(FetchDone(h1))
            /\ \A h2 \in 1..MaxId, b \in BOOLEAN : WF_vars(Process([id |-> h2, ok |-> b]))

Spec == Init /\ [][Next]_vars /\ Fairness

View == <<cf, st, sem, fly, pend, main, sig, req, dupReq, timedOut>>
Export == IF main = "done" \/ ExportAll
          THEN PrintT("HIST " \o ToJson([inst |-> cf.name, sched |-> hist, done |-> main = "done"]))
          ELSE TRUE

-----------------------------------------------------------------------------
(* Properties (C09, C10, C11 at design level)                              *)
ResSet == SeqRange(st.res)
Done   == main = "done"

TypeOK ==
  /\ st.tip >= 0 /\ sem >= 0 /\ sem <= cf.Conc
  /\ st.tip = Cardinality(fly) + Cardinality(pend)
  /\ Cardinality(fly) + sem = cf.Conc

C11_NoDupResult       == Len(st.res) = Cardinality(ResSet)
C11_NoDupRequest      == ~dupReq
C11_NoExcludedRequest == req \cap cf.Excluded = {}
C11_OnlyRetrievable   == \A h \in ResSet : Retrievable(cf, h)
C11_WithinReach       == ResSet \subseteq Reach(cf)
C11_ExactReach        == (Done /\ cf.Length < 0 /\ ~timedOut) => ResSet = Reach(cf)
C11_Quiescent         == Done => st.tip = 0 /\ fly = {} /\ pend = {}
\* liveness: the load always terminates (a slow block answers once the deadline fires)
C11_Terminates        == (NoSlow(cf) \/ cf.Timeout) => <>(main = "done")

\* C09: without a limit and without faults the result is the whole stored log, on every schedule
C09_UnboundedExact == (Done /\ cf.Length < 0 /\ AllOk(cf) /\ ~timedOut /\ cf.Excluded = {}) => ResSet = Reach(cf)

\* C10: with a limit n the loaders keep exactly the newest entries, on every schedule.
\* k = number of starting entries the caller supplied (0 for a manifest / head list)
C10Scope == Done /\ cf.Length >= 0 /\ AllOk(cf) /\ ~timedOut /\ cf.Excluded = {}
              /\ StrictOn(cf.D, "LWW", Reach(cf))
C10_Exact ==
  C10Scope /\ cf.Kind # "fetch" =>
    LET all  == Reach(cf)
        kept == LoaderKeeps(cf.D, cf.Kind, st.res, cf.N, cf.Start)
    IN /\ Cardinality(kept) = MinInt(MaxInt(cf.N, cf.K), Cardinality(all))
       /\ kept = LimitedWant(cf, all)
=============================================================================
