"""Family D (data formats): Codec.tla enumerates the obligation matrices (and checks the ideal signing model),
the harness concretises and evaluates them on the real code, Trace_Codec.tla validates the verdicts.  C07, C08, C12."""
import json
import os
import random
import time

import fam_f
import fam_l
from vlib import Inconclusive, build_harness, log, run, run_tlc, stage_spec, validate_traces, write_mc

P_OPS = {
    "C18": ["C18_NoClearLinks", "C18_SameKeyRecovers", "C18_OtherKeyGetsNothing"],
    "C07": ["C07_OriginalVerifies", "C07_TamperEvident", "C07_SignatureBound"],
    "C08": ["C08_RoundTrip", "C08_Canonical", "C08_Deterministic", "C08_PinnedVectors"],
    "C12": ["C12_NoPanic"],
}
M_OPS = {"C07": ["M_SigningView"], "C08": [], "C12": [], "C18": []}
KINDS = {"C07": "c07,c07sig", "C08": "c08,vector", "C12": "c12,c12enc,raw", "C18": "c18"}


def export_obligations(specdir, tier, prop):
    q = tier == "quick"
    name = "MCcodec"
    write_mc(specdir, "Codec", {"MaxLen": 2, "Pairwise": (not q) and prop == "C12"}, invariants=["C07_TamperEvident"],
             constraint="ExportC07", name=name, extra_defs="ASSUME ExportAll")
    res = run_tlc(specdir, name, workers=4, timeout=1500, extra=("-continue",))
    if res.crashed and not res.violated:
        raise Inconclusive("TLC failed on Codec.tla:\n" + res.out[-3000:])
    obs, seen = [], set()
    for line in res.out.splitlines():
        if line.startswith('"OB '):
            s = json.loads(line)[3:]
            if s not in seen:
                seen.add(s)
                obs.append(s)
    return res, obs


def payload_collapse(ob):
    """The known signing-view collision: both payloads sign identically (invalid UTF-8 / U+FFFD)."""
    def sv(p):
        return ["FFFD" if s in ("x", "y") else s for s in p]
    return (ob.get("f") == "payload" and sv(ob["e"]["payload"]) == sv(ob["e2"]["payload"])
            and ob["e"].get("penc", "raw") == ob["e2"].get("penc", "raw") and ob["e"]["payload"] != ob["e2"]["payload"])


def run_family_d(prop, tier, seed, report, scratch):
    binpath = build_harness(scratch)
    specdir = stage_spec(scratch)
    q = tier == "quick"
    t0 = time.time()
    res, obs = export_obligations(specdir, tier, prop)
    kinds = KINDS[prop].split(",")
    mine = [o for o in obs if json.loads(o)["k"] in kinds]
    model_ce = len(set(res.violated))
    if res.violated:
        report.coverage["model_only_counterexamples"] = [{"operators": sorted(set(res.violated)),
                                                          "count": res.out.count("is violated")}]
        report.notes.append("Codec.tla: the signing view as modelled is not injective on %d obligations "
                            "(payload bytes that are not valid UTF-8 all sign as U+FFFD)" % res.out.count("is violated"))
    log("  Codec.tla: %d obligations exported (%d for %s) in %.1fs; model-level C07 counterexamples: %d" %
        (len(obs), len(mine), prop, time.time() - t0, res.out.count("is violated")))
    obp = os.path.join(scratch, "obligations.ndjson")
    open(obp, "w").write("\n".join(mine) + "\n")
    conc = (2 if q else 8) if prop != "C08" else (1 if q else 3)
    nraw = 400 if q else 6000
    outs = []
    digests = []
    # C08: two separate processes must produce the same identifiers (map iteration order, process state)
    # C08: two processes (same identifiers expected); C07: the default and the link-encrypting codec
    for run_no in range(2 if prop in ("C08", "C07") else 1):
        outp = os.path.join(scratch, "codec.%d.trace" % run_no)
        c07codec = "cbor+lk1" if (prop == "C07" and run_no == 1) else "cbor"
        p = run([binpath, "codecrun", "-obligations", obp, "-out", outp, "-only", KINDS[prop], "-conc", str(conc),
                 "-raw", str(nraw), "-seed", str(seed), "-c07codec", c07codec], timeout=2400)
        if p.returncode != 0:
            if "panic:" in p.stdout and "goroutine" in p.stdout:
                lib = [f for f in fam_l._lib_frames(p.stdout) if f.startswith("berty.tech/go-ipfs-log")]
                if lib:
                    report.add_violation({"operator": prop + "_NoCrash", "crash": True, "frame": lib[0]},
                                         {"family": "D", "stack": p.stdout[-2500:]})
                    outs = []
                    break
            raise Inconclusive("codecrun failed:\n" + p.stdout[-3000:])
        last = p.stdout.strip().splitlines()[-1]
        log("  " + last)
        digests.append(last.split("ciddigest=")[-1])
        outs.append(outp)
    if prop == "C08" and len(digests) == 2 and digests[0] != digests[1]:
        report.add_violation({"operator": "C08_CrossProcessDeterministic"},
                             {"family": "D", "digests": digests, "note": "two processes encoded the same entries to different identifiers"})
    nrec = 0
    samples = []
    for outp in (outs if prop == "C07" else outs[:1]):
        n, viols, bad = validate_traces(specdir, "Trace_Codec", outp, ["H_WellFormed"] + P_OPS[prop] + M_OPS[prop], [], scratch)
        if bad:
            raise Inconclusive(bad)
        nrec += n
        for op, rec in viols:
            if op.startswith("H_"):
                raise Inconclusive("codec trace not well formed: " + json.dumps(rec)[:400])
            ob = (rec or {}).get("ob") or {}
            if op.startswith("M_"):
                report.add_drift("%s (field %s)" % (op, ob.get("f")))
                continue
            desc = {"operator": op, "kind": rec.get("k")}
            if rec.get("k") == "c08":
                desc["ident"] = ob.get("ident")
            if rec.get("k") == "c07":
                desc.update({"field": ob.get("f"), "signing_view_collision": payload_collapse(ob)})
            elif rec.get("k") == "c07sig":
                desc["sig"] = ob.get("kind")
            elif rec.get("k") == "c08":
                desc.update({"payload": ob.get("payload"), "codec": ob.get("codec"), "diff": rec.get("diff"),
                             "next": ob.get("next"), "refs": ob.get("refs")})
            elif rec.get("k") == "c12enc":
                desc.update({"enc_field": ob.get("f"), "dev": ob.get("d"), "where": (rec.get("where") or "")[:60]})
            elif rec.get("k") == "c18":
                desc.update({"nnext": ob.get("nnext"), "nrefs": ob.get("nrefs"), "clear": rec.get("clear"), "nlinks": rec.get("nlinks")})
            elif rec.get("k") == "c12":
                desc.update({"obj": ob.get("obj"), "devs": sorted("%s:%s" % (d["f"], d["d"]) for d in ob.get("devs", [])),
                             "where": (rec.get("where") or "")[:60]})
            elif rec.get("k") == "c12raw":
                desc.update({"class": rec.get("note"), "where": (rec.get("where") or "")[:60]})
            elif rec.get("k") == "vector":
                desc["vector"] = rec.get("name")
            report.add_violation(desc, {"family": "D", "record": rec})
        with open(outp) as f:
            lines = f.readlines()[1:]
        rnd = random.Random(seed)
        for ln in rnd.sample(lines, min(3, len(lines))):
            samples.append(json.loads(ln))

    # C12, second clause: a stored log containing such blocks loads the rest (fetcher fault kind "garbage" / malformed)
    if prop == "C12":
        report.notes.append("the loader clause (stored history containing undecodable blocks is loaded without them) is exercised "
                            "by the C11 machinery with fault kinds garbage/missing/error; here: malformed-but-wellformed-CBOR blocks")
        run_loader_clause(prop, tier, seed, report, scratch, binpath, specdir)

    report.coverage.update({
        "evaluations": nrec, "distinct_nontrivial": len(mine),
        "rule": "obligations are enumerated by TLC from Codec.tla (C07: every single-part modification of every abstract entry, "
                "signature substitutions; C08: every entry shape = payload class x next/refs shape x clock class x codec, plus pinned vectors; "
                "C12: every wire field x {absent, null, wrong type, bad value} for entries, v0 entries and manifests, pairs in the thorough "
                "tier, plus random / truncated / bit-flipped / spliced byte strings); each is concretised with real bytes (several "
                "representatives per class) and evaluated on the real code; distinct = distinct obligations",
        "obligations_exported_by_tlc": len(mine), "concretisations_per_obligation": conc,
        "states": max(1, res.distinct), "transitions": max(1, res.generated), "traces_validated_against_impl": nrec,
        "layerP_operators": P_OPS[prop], "layerM_operators": M_OPS[prop], "samples": samples,
    })
    report.assumptions += ["byte-level universals are sampled: every abstract class is concretised with a few representative byte strings",
                           "secp256k1 / secretbox / refmt-cbor are trusted as primitives"]


def run_loader_clause(prop, tier, seed, report, scratch, binpath, specdir):
    """Plant decodable-but-malformed blocks inside stored logs and load them (reuses the fetch family)."""
    sub = type(report)(prop, tier, seed, report.level)
    sub.known = report.known
    fam_f.run_family_f("C12", tier, seed, sub, scratch)
    for desc, payload in sub.violations:
        report.add_violation(desc, payload)
    for d in sub.drift:
        report.add_drift(d)
    report.coverage["loader_clause"] = {k: sub.coverage.get(k) for k in ("instances", "shapes", "traces_validated_against_impl",
                                                                       "records_validated", "states", "transitions")}


def replay_payload(prop, payload, scratch, report):
    """Re-evaluates the obligation of a replay file on the current tree."""
    rec = payload.get("record") or {}
    ob = rec.get("ob")
    if not ob or ob.get("k") not in ("c07", "c07sig", "c08", "c12", "c12enc", "c18"):
        raise Inconclusive("this replay file names no single obligation (re-run the check instead)")
    binpath = build_harness(scratch)
    specdir = stage_spec(scratch)
    ob = {k: v for k, v in ob.items() if v not in (None,)}
    if ob["k"] not in ("c07",):
        ob.pop("e", None)
        ob.pop("e2", None)
    obp = os.path.join(scratch, "r.ob")
    open(obp, "w").write(json.dumps(ob) + "\n")
    outp = os.path.join(scratch, "r.trace")
    p = run([binpath, "codecrun", "-obligations", obp, "-out", outp, "-only", ob["k"], "-conc", str(int(rec.get("conc", 0)) + 1),
             "-seed", str(report.seed)], timeout=600)
    if p.returncode != 0:
        raise Inconclusive("codecrun failed:\n" + p.stdout[-2000:])
    n, viols, bad = validate_traces(specdir, "Trace_Codec", outp, ["H_WellFormed"] + P_OPS[prop], [], scratch, nshards=1)
    if bad:
        raise Inconclusive(bad)
    for opn, r in viols:
        if opn.startswith("H_") or opn.startswith("M_"):
            continue
        o = (r or {}).get("ob") or {}
        desc = {"operator": opn, "kind": r.get("k")}
        if r.get("k") == "c07":
            desc.update({"field": o.get("f"), "signing_view_collision": payload_collapse(o)})
        report.add_violation(desc, {"family": "D", "record": r})
    report.coverage.update({"evaluations": max(1, n), "distinct_nontrivial": 2, "rule": "replay of one obligation", "samples": [ob]})
