"""Family K (shared-memory concurrency): LogConc.tla explored by TLC, every interleaving of yield-point
steps replayed on the real logs by the lock scheduler, free-running runs under the race detector."""
import json
import os
import random
import re
import time
from concurrent.futures import ThreadPoolExecutor

import fam_l
from vlib import Inconclusive, NCPU, build_harness, log, run, run_tlc, stage_spec, validate_traces, write_mc

P_OPS = {
    "C13": ["C13_StateConsistent", "C13_ReadsConsistent", "C13_NoDeadlock", "C13_NoPanic", "C13_AppendsSucceed",
            "C13_ExactlyOnce", "C13_AppendsFormChain"],
    "C14": ["C14_NoDeadlock", "C14_HeadsInEnts", "C14_JoinSucceeds", "C14_SnapshotAtomic", "C13_StateConsistent"],
}
M_OPS = ["M_PureSteps", "M_OthersUntouched", "M_JoinApply", "M_StepStructure"]
MODEL_INV = {
    "C13": ["C13_StateConsistent", "C13_ReadsConsistent", "C13_AppendsFormChain", "C13_ExactlyOnce"],
    "C14": ["C14_HeadsInEnts", "C14_SnapshotIncluded", "C13_StateConsistent"],
}
MODEL_PROP = {"C13": ["C13_NoDeadlock"], "C14": ["C13_NoDeadlock"]}


def op(o, r, s=0, n=0, acc=""):
    return {"op": o, "r": r, "s": s, "n": n, "acc": acc}


def menus(prop, tier):
    q = tier == "quick"
    if prop == "C13":
        reads = ["Values", "Heads", "GetEntries", "ToSnapshot", "Iterator", "ToJSONLog", "Len", "RawHeads", "RawHeadsHeld"]
        m = [op("A", 1, n=1), op("A", 1, n=2), op("J", 1, 2), op("P", 1), op("SI", 1, n=2)] + [op("R", 1, acc=a) for a in reads]
        # a kept RawHeads() result against the merge of a log whose head has this log's head in its past
        held = dict(name="held_read", NL=2, Writer0=[1, 2], MaxSetup=3, NProcs=2 if q else 3,
                    Menu=[op("J", 1, 2), op("R", 1, acc="RawHeadsHeld"), op("A", 1, n=1), op("R", 1, acc="ToJSONLog")],
                    FixedSetup=[("A", 1, 1), ("J", 2, 1), ("A", 2, 1)])
        return [dict(name="one_log", NL=2, Writer0=[1, 2], MaxSetup=3, Menu=m, NProcs=2), held,
                ] + ([] if q else [dict(name="one_log3", NL=2, Writer0=[1, 2], MaxSetup=2,
                                        Menu=[op("A", 1, n=1), op("A", 1, n=2), op("J", 1, 2), op("P", 1), op("R", 1, acc="ToSnapshot"),
                                              op("R", 1, acc="Values")], NProcs=3)])
    m2 = [op("J", 1, 2), op("J", 2, 1), op("A", 1, n=1), op("A", 2, n=1), op("R", 1, acc="ToSnapshot")]
    plans = [dict(name="two_logs", NL=2, Writer0=[1, 2], MaxSetup=3, Menu=m2, NProcs=2 if q else 3)]
    m3 = [op("J", 1, 2), op("J", 2, 3), op("J", 3, 1), op("A", 2, n=1)]
    plans.append(dict(name="cycle3", NL=3, Writer0=[1, 2, 3], MaxSetup=4, Menu=m3, NProcs=3,
                      FixedSetup=[("A", 1, 1), ("A", 2, 1), ("A", 3, 1), ("J", 1, 3)]))
    # the symmetric cross-merge with a writer arriving on each log: four goroutines, each running a different operation
    plans.append(dict(name="cross4", NL=2, Writer0=[1, 2], MaxSetup=2, NProcs=4, Distinct=True, cap=4400,
                      Menu=[op("J", 1, 2), op("J", 2, 1), op("A", 1, n=1), op("A", 2, n=1)],
                      FixedSetup=[("A", 1, 1), ("A", 2, 1)]))
    # M=1 holds m1, B=3 merged M and appended on top, A=2 has its own entry; M merges from A while A merges from B
    plans.append(dict(name="relay3", NL=3, Writer0=[1, 2, 3], MaxSetup=4, Menu=[op("J", 1, 2), op("J", 2, 3), op("A", 3, n=1), op("R", 2, acc="ToSnapshot")],
                      NProcs=2 if q else 3, FixedSetup=[("A", 1, 1), ("J", 3, 1), ("A", 3, 1), ("A", 2, 1)]))
    return plans


RE_RACE = re.compile(r"WARNING: DATA RACE")


def race_blocks(out):
    blocks, cur = [], None
    for line in out.splitlines():
        if RE_RACE.search(line):
            cur = [line]
            blocks.append(cur)
        elif cur is not None:
            cur.append(line)
            if line.startswith("=================="):
                cur = None
    return ["\n".join(b) for b in blocks]


def run_family_k(prop, tier, seed, report, scratch):
    binpath = build_harness(scratch)
    specdir = stage_spec(scratch)
    q = tier == "quick"
    states = transitions = nscen = nrec = 0
    samples = []
    hcfg_all = None
    all_scen = []
    for plan in menus(prop, tier):
        consts = {"NL": plan["NL"], "Writer0": plan["Writer0"], "Fn": "LWW", "MaxE": 4, "MaxSetup": plan["MaxSetup"],
                  "FixedSetup": [list(x) for x in plan.get("FixedSetup", [])], "Menu": None, "NProcs": plan["NProcs"],
                  "Distinct": bool(plan.get("Distinct", False))}
        menu_tla = "{" + ", ".join("[op |-> %s, r |-> %d, s |-> %d, n |-> %d, acc |-> %s]" %
                                   (json.dumps(m["op"]), m["r"], m["s"], m["n"], json.dumps(m["acc"])) for m in plan["Menu"]) + "}"
        del consts["Menu"]
        write_mc(specdir, "LogConc", consts, invariants=MODEL_INV[prop], properties=MODEL_PROP[prop], view="View",
                 constraint="Export", name=plan["name"], extra_defs="MCc_Menu == " + menu_tla)
        # Menu goes through the extra definition
        cfgp = os.path.join(specdir, plan["name"] + ".cfg")
        open(cfgp, "a").write("CONSTANT Menu <- MCc_Menu\n")
        res = run_tlc(specdir, plan["name"], workers=NCPU, timeout=2400)
        if res.crashed and not res.violated and not res.temporal:
            raise Inconclusive("TLC failed on LogConc.tla (%s):\n%s" % (plan["name"], res.out[-3000:]))
        if res.violated or res.temporal:
            report.notes.append("model-level counterexample in LogConc.tla (%s): %s" % (plan["name"], res.violated or "temporal"))
            report.coverage.setdefault("model_only_counterexamples", []).append({"plan": plan["name"], "operators": res.violated or ["temporal"]})
        scen = res.hist_lines()
        states += res.distinct
        transitions += res.generated
        rnd = random.Random(seed)
        cap = int(os.environ.get("VERIF_K_CAP", "0")) or plan.get("cap") or (2500 if q else 40000)
        if len(scen) > cap:
            scen = rnd.sample(scen, cap)
        log("  %s: TLC %d generated / %d distinct in %.1fs, %d scenarios" % (plan["name"], res.generated, res.distinct, res.wall, len(scen)))
        hcfg = {"NR": plan["NL"], "Writer0": plan["Writer0"], "Lid": ["X"] * plan["NL"], "Fn": "LWW",
                "Denied": [[] for _ in range(plan["NL"])], "Codec": "cbor", "Seed": seed, "Audit": ""}
        cfgj = os.path.join(scratch, plan["name"] + ".cfg.json")
        json.dump(hcfg, open(cfgj, "w"))
        nproc = min(NCPU, max(1, len(scen) // 50))
        shards = [scen[k::nproc] for k in range(nproc)]

        def crun(k, free=0, binp=binpath, tag=""):
            sp = os.path.join(scratch, "%s.%s%d.scen" % (plan["name"], tag, k))
            outp = os.path.join(scratch, "%s.%s%d.trace" % (plan["name"], tag, k))
            open(sp, "w").write("\n".join(shards[k]) + "\n")
            cmd = [binp, "crun", "-cfg", cfgj, "-scenarios", sp, "-out", outp]
            if free:
                cmd += ["-free", str(free)]
            env = dict(os.environ, GORACE="halt_on_error=0 exitcode=0")
            pr = run(cmd, timeout=2400, env=env)
            return k, pr, outp

        t0 = time.time()
        with ThreadPoolExecutor(max_workers=nproc) as ex:
            outs = list(ex.map(crun, range(nproc)))
        stuck = followed = 0
        traces = []
        for k, pr, outp in outs:
            if pr.returncode != 0:
                raise Inconclusive("crun failed:\n" + pr.stdout[-3000:])
            last = pr.stdout.strip().splitlines()[-1]
            parts = dict(x.split("=") for x in last.split()[1:])
            stuck += int(parts["stuck"])
            followed += int(parts["followed"])
            traces.append(outp)
        log("  %s: %d scenarios replayed in %.1fs (%d followed exactly, %d with stuck goroutines)" %
            (plan["name"], len(scen), time.time() - t0, followed, stuck))
        for tpath in traces:
            n, viols, bad = validate_traces(specdir, "Trace_LogConc", tpath, ["H_WellFormed"] + P_OPS[prop] + M_OPS, [], scratch,
                                            nshards=2)
            if bad:
                raise Inconclusive(bad)
            nrec += n
            classify(report, prop, viols, plan, tpath)
            os.remove(tpath)
        nscen += len(scen)
        for s in rnd.sample(scen, min(2, len(scen))):
            samples.append({"plan": plan["name"], "scenario": json.loads(s)})
        all_scen.append((plan, hcfg, cfgj, scen))
        report.coverage.setdefault("plans", []).append({"name": plan["name"], "tlc_generated": res.generated, "tlc_distinct": res.distinct,
                                                        "scenarios_replayed": len(scen), "followed_exactly": followed, "stuck": stuck,
                                                        "menu": plan["Menu"], "concurrent_calls": plan["NProcs"]})

    # free-running runs under the race detector: distinct operation combinations of every plan
    if prop == "C13" or prop == "C14":
        racebin = build_harness(scratch, race=True)
        t0 = time.time()
        nrace_runs = 0
        for plan, hcfg, cfgj, scen in all_scen:
            combos = {}
            for s in scen:
                d = json.loads(s)
                key = json.dumps([d["setup"], d["procs"]])
                combos.setdefault(key, json.dumps({"setup": d["setup"], "procs": d["procs"], "sched": []}))
            items = list(combos.values())
            if False and prop == "C13" and plan["name"] == "one_log":
                # combinations outside the model's menu, exercised under the race detector only:
                # a size-bounded join (it replaces the entry index) against Len and the readers,
                # and a join that fails on several candidates at once (its verification workers all report)
                su = [["A", 1, 1], ["A", 2, 1], ["A", 2, 1], ["A", 2, 1]]
                for other in (op("R", 1, acc="Len"), op("R", 1, acc="Values"), op("R", 1, acc="GetEntries"), op("A", 1, n=1)):
                    items.append(json.dumps({"setup": su, "procs": [op("JB", 1, 2, n=2), other], "sched": []}))
                    items.append(json.dumps({"setup": su, "procs": [op("JB", 1, 2, n=1), other, op("R", 1, acc="Len")], "sched": []}))
            rnd = random.Random(seed + 7)
            cap = int(os.environ.get("VERIF_K_CAP", "0")) or (120 if q else 1200)
            if len(items) > cap:
                items = rnd.sample(items, cap)
            iters = 6 if q else 40
            nproc = min(NCPU, max(1, len(items) // 8))
            shards = [items[k::nproc] for k in range(nproc)]

            def crace(k):
                sp = os.path.join(scratch, "%s.race%d.scen" % (plan["name"], k))
                outp = os.path.join(scratch, "%s.race%d.trace" % (plan["name"], k))
                open(sp, "w").write("\n".join(shards[k]) + "\n")
                env = dict(os.environ, GORACE="halt_on_error=0 exitcode=0")
                pr = run([racebin, "crun", "-cfg", cfgj, "-scenarios", sp, "-out", outp, "-free", str(iters)], timeout=2400, env=env)
                return pr, outp

            with ThreadPoolExecutor(max_workers=nproc) as ex:
                for pr, outp in ex.map(crace, range(nproc)):
                    if pr.returncode != 0 and "DATA RACE" not in pr.stdout:
                        raise Inconclusive("race run failed:\n" + pr.stdout[-3000:])
                    for blk in race_blocks(pr.stdout):
                        lib = lib_frames(blk)
                        if not lib:
                            continue
                        report.add_violation({"operator": "C13_NoRace", "race": True, "frames": lib[:4]},
                                             {"family": "K", "race_report": blk[:3000], "plan": plan["name"]})
                    if os.path.exists(outp):
                        n, viols, bad = validate_traces(specdir, "Trace_LogConc", outp, ["H_WellFormed"] + P_OPS[prop], [], scratch, nshards=2)
                        if bad:
                            raise Inconclusive(bad)
                        nrec += n
                        classify(report, prop, viols, plan)
                        os.remove(outp)
            nrace_runs += len(items) * iters
        log("  race detector: %d free-running executions in %.1fs" % (nrace_runs, time.time() - t0))
        report.coverage["race_detector_runs"] = nrace_runs

    extra_race_runs(prop, tier, seed, report, scratch, specdir, racebin)
    report.coverage.update({"states": states, "transitions": transitions, "traces_validated_against_impl": nscen,
                            "records_validated": nrec, "exhaustive": False, "layerP_operators": P_OPS[prop] + ["C13_NoRace"],
                            "layerM_operators": M_OPS, "model_operators": MODEL_INV[prop] + MODEL_PROP[prop], "samples": samples})
    report.assumptions += [
        "a shard stops replaying after 8 scenarios with stuck goroutines (each costs seconds); those seen are all reported",
        "yield points exist on entry of every public operation and before Join locks the destination; interleavings inside a "
        "critical section are not forced (they are the race detector's and the stress runs' business)",
        "a goroutine that neither parks nor returns within 0.4 s of its release is treated as blocked on a lock; a scenario whose "
        "calls do not all return is a deadlock",
        "the Go race detector is dynamic: it reports races on the executions performed",
    ]


def extra_race_runs(prop, tier, seed, report, scratch, specdir, racebin):
    """Combinations outside the model's menu, run under the race detector only (race verdict, plus 'all calls return'):
    a join whose candidates are all denied (every verification worker reports an error at once), and a size-bounded
    join - which replaces the entry index - against Len and the readers."""
    iters = 30 if tier == "quick" else 300
    su = [["A", 2, 1], ["A", 2, 1], ["A", 2, 1], ["A", 2, 1]]
    groups = [
        # more refused candidates than the verification concurrency (2): the merge still returns, also next to the merge
        # in the other direction
        ("refused_batches", [[2], []],
         [{"setup": su, "procs": [op("J", 1, 2), op("J", 2, 1)], "sched": []},
          {"setup": su, "procs": [op("J", 1, 2), op("A", 2, n=1), op("J", 1, 2)], "sched": []}]),
    ] if prop == "C14" else [
        ("denied_join", [[2], []],
         [{"setup": su, "procs": [op("J", 1, 2), op("R", 1, acc="Values")], "sched": []},
          {"setup": su, "procs": [op("J", 1, 2), op("J", 1, 2)], "sched": []},
          # whatever a refused join still has running when it returns must not touch the log: an identity change, an
          # append and a size-bounded join issued next to it (and right after it)
          {"setup": su, "procs": [op("J", 1, 2), op("SI", 1, n=3), op("SI", 1, n=1)], "sched": []},
          {"setup": su, "procs": [op("J", 1, 2), op("A", 1, n=1), op("SI", 1, n=3)], "sched": []},
          {"setup": su, "procs": [op("J", 1, 2), op("JB", 1, 2, n=2), op("SI", 1, n=3)], "sched": []}]),
        ("bounded_join", [[], []],
         [{"setup": su, "procs": [op("JB", 1, 2, n=2), other, op("R", 1, acc="Len")], "sched": []}
          for other in (op("R", 1, acc="Len"), op("R", 1, acc="Values"), op("R", 1, acc="GetEntries"), op("R", 1, acc="ToSnapshot"))]
         # a reader calling Len 20000 times, so that one call falls between the last use of the old entry index and its replacement
         + [{"setup": su, "procs": [op("JB", 1, 2, n=2), op("R", 1, acc="LenLoop")], "sched": []}]),
    ]
    env = dict(os.environ, GORACE="halt_on_error=0 exitcode=0")
    for name, denied, items in groups:
        hcfg = {"NR": 2, "Writer0": [1, 2], "Lid": ["X", "X"], "Fn": "LWW", "Denied": denied, "Codec": "cbor", "Seed": seed, "Audit": "",
                "Concurrency": 2 if name == "refused_batches" else 0}
        cfgj = os.path.join(scratch, name + ".cfg.json")
        json.dump(hcfg, open(cfgj, "w"))
        sp = os.path.join(scratch, name + ".scen")
        outp = os.path.join(scratch, name + ".trace")
        open(sp, "w").write("\n".join(json.dumps(i) for i in items) + "\n")
        pr = run([racebin, "crun", "-cfg", cfgj, "-scenarios", sp, "-out", outp, "-free", str(iters)], timeout=1200, env=env)
        if pr.returncode != 0 and "DATA RACE" not in pr.stdout:
            raise Inconclusive("race run (%s) failed:\n%s" % (name, pr.stdout[-3000:]))
        for blk in race_blocks(pr.stdout):
            lib = lib_frames(blk)
            if lib:
                report.add_violation({"operator": "C13_NoRace", "race": True, "frames": lib[:4]},
                                     {"family": "K", "race_report": blk[:3000], "plan": name})
        if os.path.exists(outp):
            n, viols, bad = validate_traces(specdir, "Trace_LogConc", outp, ["H_WellFormed", "C13_NoDeadlock", "C13_NoPanic"], [], scratch, nshards=1)
            if bad:
                raise Inconclusive(bad)
            classify(report, prop, viols, {"name": name})
        report.coverage["race_detector_runs"] = report.coverage.get("race_detector_runs", 0) + len(items) * iters


def lib_frames(blk):
    """Library functions named in a race report."""
    out = []
    for ln in blk.splitlines():
        t = ln.strip()
        if t.startswith("berty.tech/go-ipfs-log"):
            name = re.sub(r"\([^()]*\)$", "", t)
            if name not in out:
                out.append(name)
    return sorted(out)


def classify(report, prop, viols, plan, tpath=None):
    finals = {}
    if tpath and any(r and r.get("k") == "step" for _, r in viols):
        with open(tpath) as f:
            for line in f:
                if '"k":"final"' in line:
                    d = json.loads(line)
                    finals[d["sid"]] = d.get("scen")
    for opn, rec in viols:
        if opn.startswith("H_"):
            raise Inconclusive("concurrency trace not well formed: " + json.dumps(rec)[:400])
        if opn.startswith("M_"):
            report.add_drift("%s (%s)" % (opn, (rec.get("op") or {}).get("op") if rec else "?"))
            continue
        desc = {"operator": opn, "plan": plan["name"]}
        if rec:
            if rec.get("k") == "final":
                desc["ops"] = sorted("%s%s" % (p["op"], p["acc"]) for p in rec.get("procs", []))
                desc["stuck"] = len(rec.get("stuck", []))
            else:
                desc["op"] = rec["op"]["op"] + rec["op"]["acc"]
        payload = {"family": "K", "record": {k: v for k, v in (rec or {}).items() if k not in ("pre", "post")},
                   "scenario": (rec or {}).get("scen") or finals.get((rec or {}).get("sid")), "plan": plan}
        report.add_violation(desc, payload)


def replay_payload(prop, payload, scratch, report):
    """Re-runs the scenario of a replay file (same interleaving) on the current tree and validates it again."""
    scen = payload.get("scenario")
    plan = payload.get("plan") or {}
    if not scen:
        raise Inconclusive("replay file has no scenario (race reports are replayed by re-running the check)")
    binpath = build_harness(scratch)
    specdir = stage_spec(scratch)
    nl = plan.get("NL", 2)
    hcfg = {"NR": nl, "Writer0": plan.get("Writer0", list(range(1, nl + 1))), "Lid": ["X"] * nl, "Fn": "LWW",
            "Denied": [[] for _ in range(nl)], "Codec": "cbor", "Seed": report.seed, "Audit": ""}
    cfgj = os.path.join(scratch, "r.cfg.json")
    json.dump(hcfg, open(cfgj, "w"))
    sp = os.path.join(scratch, "r.scen")
    open(sp, "w").write((scen if isinstance(scen, str) else json.dumps(scen)) + "\n")
    outp = os.path.join(scratch, "r.trace")
    pr = run([binpath, "crun", "-cfg", cfgj, "-scenarios", sp, "-out", outp], timeout=600)
    if pr.returncode != 0:
        raise Inconclusive("crun failed:\n" + pr.stdout[-2000:])
    n, viols, bad = validate_traces(specdir, "Trace_LogConc", outp, ["H_WellFormed"] + P_OPS[prop], [], scratch, nshards=1)
    if bad:
        raise Inconclusive(bad)
    classify(report, prop, viols, {"name": plan.get("name", "replay")}, outp)
    report.coverage.update({"states": 2 * n, "transitions": n, "traces_validated_against_impl": 1, "samples": [{"scenario": scen}]})
