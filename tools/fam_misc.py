"""Families without a history exploration: C19 (Sorting.tla) and C20 (Keystore.tla)."""
import json
import os
import random
import time

from vlib import Inconclusive, build_harness, log, run, run_tlc, stage_spec, validate_traces, write_mc

C19_LAWS = ["C19_HashStrictTotal", "C19_LwwIsHashWhenClocksDistinct", "C19_ClockCompareLawful",
            "C19_RespectsTime", "C19_FwwReversesLww"]


def run_c19(prop, tier, seed, report, scratch):
    binpath = build_harness(scratch)
    specdir = stage_spec(scratch)
    # (a) design level: the transcribed comparators obey the laws on the whole cube of rank triples
    K = 3 if tier == "quick" else 4
    write_mc(specdir, "Sorting", {"K": K}, invariants=C19_LAWS + ["C19_SortIsPermutationAndOrdered"], name="MCsort")
    res = run_tlc(specdir, "MCsort", workers=4, timeout=1500)
    if res.crashed and not res.violated:
        raise Inconclusive("TLC failed on Sorting.tla:\n" + res.out[-3000:])
    if res.violated:
        report.notes.append("model-level counterexample in Sorting.tla: %s" % res.violated)
        report.coverage.setdefault("model_only_counterexamples", []).append({"operators": res.violated})
    log("  Sorting.tla: laws on the cube K=%d checked in %.1fs (%s)" % (K, res.wall, "ok" if not res.violated else res.violated))
    # (b) the real functions on concrete entries, (c) validated against the laws and the transcription
    trace = os.path.join(scratch, "sort.trace.ndjson")
    p = run([binpath, "sortrun", "-out", trace, "-tier", tier, "-seed", str(seed)], timeout=900)
    if p.returncode != 0:
        raise Inconclusive("sortrun failed:\n" + p.stdout[-3000:])
    log("  " + p.stdout.strip().splitlines()[-1])
    hdr = json.loads(open(trace).readline())
    ntri = nsort = 0
    samples = []
    rnd = random.Random(seed)
    with open(trace) as f:
        f.readline()
        for line in f:
            if '"k":"tri"' in line:
                ntri += 1
            else:
                nsort += 1
            if rnd.random() < 0.00005 and len(samples) < 3:
                samples.append(json.loads(line))
    if ntri != hdr["want_tri"]:
        raise Inconclusive("sortrun emitted %d triple records, expected the complete cubes (%d)" % (ntri, hdr["want_tri"]))
    t0 = time.time()
    inv = ["H_WellFormed"] + C19_LAWS + ["C19_NoZeroes", "C19_SortIsPermutation", "C19_SortIsOrdered",
                                         "M_Comparators", "M_Clock", "M_Sort"]
    n, viols, bad = validate_traces(specdir, "Trace_Sorting", trace, inv, [], scratch)
    if bad:
        raise Inconclusive(bad)
    log("  validated %d records in %.1fs, %d operator failures" % (n, time.time() - t0, len(viols)))
    for op, rec in viols:
        if op.startswith("H_"):
            raise Inconclusive("sort trace not well formed: " + json.dumps(rec)[:400])
        if op.startswith("M_"):
            report.add_drift("%s (%s)" % (op, rec.get("k") if rec else "?"))
            continue
        desc = {"operator": op}
        if rec and rec.get("k") == "tri":
            desc["palette"] = rec["pal"]
        if rec and rec.get("k") == "sort":
            desc.update({"fn": rec["fn"], "rev": rec["rev"], "wrapped": rec["wrapped"]})
        report.add_violation(desc, {"family": "sorting", "record": rec})
    if not samples:
        samples = [json.loads(open(trace).readlines()[1])]
    report.coverage.update({
        "states": res.distinct + 2 * n, "transitions": n,
        "traces_validated_against_impl": n, "exhaustive": True,
        "triples_checked": ntri, "sort_calls_checked": nsort, "cube_K_model": K,
        "palettes": {"K3": hdr["pal3"], "K2": hdr["pal2"]},
        "layerP_operators": C19_LAWS + ["C19_NoZeroes", "C19_SortIsPermutation", "C19_SortIsOrdered"],
        "layerM_operators": ["M_Comparators", "M_Clock", "M_Sort"],
        "samples": samples,
    })
    report.assumptions += ["concrete clock times, clock ids and CIDs are order-isomorphic to the rank triples of the model "
                           "(several palettes incl. boundary and negative values)"]
    os.remove(trace)


C20_P = ["C20_HasIsPresent", "C20_GetIsStable", "C20_AbsentIsAbsent", "C20_CreateStores",
         "C20_IdentityStable", "C20_SignaturesVerify"]


def run_c20(prop, tier, seed, report, scratch):
    binpath = build_harness(scratch)
    specdir = stage_spec(scratch)
    q = tier == "quick"
    plans = [dict(name="ks2", NK=2, Names={"a", "b"}, MaxOps=5 if q else 6, sim=None),
             dict(name="ksSim", NK=3, Names={"a", "b", "c", "d"}, MaxOps=40, sim=(10 if q else 150, 40))]
    if not q:
        plans.insert(1, dict(name="ks3", NK=3, Names={"a", "b", "c"}, MaxOps=5, sim=None))
    states = transitions = traces = 0
    samples = []
    for plan in plans:
        write_mc(specdir, "Keystore", {"NK": plan["NK"], "Names": plan["Names"], "MaxOps": plan["MaxOps"]},
                 invariants=["C20_CacheCoherent", "C20_HasIsPresent", "C20_GetIsStable"],
                 properties=["C20_KeysNeverVanish"], view="View", constraint="Export", name=plan["name"])
        extra = ()
        if plan["sim"]:
            extra = ("-simulate", "num=%d" % plan["sim"][0], "-depth", str(plan["sim"][1]), "-seed", str(seed))
        res = run_tlc(specdir, plan["name"], workers=1 if plan["sim"] else 8, timeout=1500, extra=extra)
        if res.crashed and not res.violated:
            raise Inconclusive("TLC failed on Keystore.tla:\n" + res.out[-3000:])
        if res.violated:
            report.notes.append("model-level counterexample in Keystore.tla: %s" % res.violated)
        scripts = res.hist_lines()
        mode = "last"
        if plan["sim"]:
            import fam_l
            scripts = fam_l.maximal_only(scripts)
            mode = "all"
        else:
            states += res.distinct
            transitions += res.generated
        scp = os.path.join(scratch, plan["name"] + ".scripts")
        with open(scp, "w") as f:
            f.write("\n".join(scripts) + "\n")
        trace = os.path.join(scratch, plan["name"] + ".trace.ndjson")
        p = run([binpath, "ksrun", "-scripts", scp, "-out", trace, "-nk", str(plan["NK"]), "-mode", mode,
                 "-workers", "16"], timeout=1500)
        if p.returncode != 0:
            raise Inconclusive("ksrun failed:\n" + p.stdout[-3000:])
        log("  %s: TLC %d generated / %d distinct, %d scripts; %s" %
            (plan["name"], res.generated, res.distinct, len(scripts), p.stdout.strip().splitlines()[-1]))
        n, viols, bad = validate_traces(specdir, "Trace_Keystore", trace, ["H_WellFormed"] + C20_P + ["M_Store"], [], scratch)
        if bad:
            raise Inconclusive(bad)
        traces += n
        by_sid = {i + 1: json.loads(s) for i, s in enumerate(scripts)}
        for op, rec in viols:
            if op.startswith("H_"):
                raise Inconclusive("keystore trace not well formed: " + json.dumps(rec)[:400])
            if op.startswith("M_"):
                report.add_drift("%s on op %s" % (op, rec.get("op") if rec else "?"))
                continue
            desc = {"operator": op, "op": rec.get("op") if rec else None}
            report.add_violation(desc, {"family": "keystore", "record": rec, "script": by_sid.get(rec.get("sid")) if rec else None,
                                        "nk": plan["NK"]})
        rnd = random.Random(seed)
        for s in rnd.sample(scripts, min(2, len(scripts))):
            samples.append({"plan": plan["name"], "history": json.loads(s)})
        os.remove(trace)
    report.coverage.update({"states": states, "transitions": transitions, "traces_validated_against_impl": traces,
                            "layerP_operators": C20_P, "layerM_operators": ["M_Store"], "samples": samples,
                            "exhaustive": True})
    report.assumptions += ["LRU eviction is realised by touching the ids to keep and creating 128-|keep| filler keys "
                           "through the instance; restart by a new NewKeystore over the same datastore",
                           "ids are created at most once (the property is about keys once created)"]
