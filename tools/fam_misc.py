"""Families without a history exploration: C19 (Sorting.tla) and C20 (Keystore.tla)."""
import json
import os
import random
import time

from vlib import Inconclusive, build_harness, log, run, run_tlc, stage_spec, validate_traces, write_mc

C19_LAWS = ["C19_HashStrictTotal", "C19_LwwIsHashWhenClocksDistinct", "C19_ClockCompareLawful",
            "C19_RespectsTime", "C19_FwwReversesLww"]


def run_c19(prop, tier, seed, report, scratch):
    binpath = build_harness(scratch)
    specdir = stage_spec(scratch)
    # (a) design level: the transcribed comparators obey the laws on the whole cube of rank triples
    K = 3 if tier == "quick" else 4
    write_mc(specdir, "Sorting", {"K": K}, invariants=C19_LAWS + ["C19_SortIsPermutationAndOrdered"], name="MCsort")
    res = run_tlc(specdir, "MCsort", workers=4, timeout=1500)
    if res.crashed and not res.violated:
        raise Inconclusive("TLC failed on Sorting.tla:\n" + res.out[-3000:])
    if res.violated:
        report.notes.append("model-level counterexample in Sorting.tla: %s" % res.violated)
        report.coverage.setdefault("model_only_counterexamples", []).append({"operators": res.violated})
    log("  Sorting.tla: laws on the cube K=%d checked in %.1fs (%s)" % (K, res.wall, "ok" if not res.violated else res.violated))
    # (b) the real functions on concrete entries, (c) validated against the laws and the transcription
    trace = os.path.join(scratch, "sort.trace.ndjson")
    p = run([binpath, "sortrun", "-out", trace, "-tier", tier, "-seed", str(seed)], timeout=900)
    if p.returncode != 0:
        raise Inconclusive("sortrun failed:\n" + p.stdout[-3000:])
    log("  " + p.stdout.strip().splitlines()[-1])
    hdr = json.loads(open(trace).readline())
    ntri = nsort = 0
    samples = []
    rnd = random.Random(seed)
    with open(trace) as f:
        f.readline()
        for line in f:
            if '"k":"tri"' in line:
                ntri += 1
            else:
                nsort += 1
            if rnd.random() < 0.00005 and len(samples) < 3:
                samples.append(json.loads(line))
    if ntri != hdr["want_tri"]:
        raise Inconclusive("sortrun emitted %d triple records, expected the complete cubes (%d)" % (ntri, hdr["want_tri"]))
    t0 = time.time()
    inv = ["H_WellFormed"] + C19_LAWS + ["C19_NoZeroes", "C19_SortIsPermutation", "C19_SortIsOrdered",
                                         "M_Comparators", "M_Clock", "M_Sort"]
    n, viols, bad = validate_traces(specdir, "Trace_Sorting", trace, inv, [], scratch)
    if bad:
        raise Inconclusive(bad)
    log("  validated %d records in %.1fs, %d operator failures" % (n, time.time() - t0, len(viols)))
    for op, rec in viols:
        if op.startswith("H_"):
            raise Inconclusive("sort trace not well formed: " + json.dumps(rec)[:400])
        if op.startswith("M_"):
            report.add_drift("%s (%s)" % (op, rec.get("k") if rec else "?"))
            continue
        desc = {"operator": op}
        if rec and rec.get("k") == "tri":
            desc["palette"] = rec["pal"]
        if rec and rec.get("k") == "sort":
            desc.update({"fn": rec["fn"], "rev": rec["rev"], "wrapped": rec["wrapped"]})
        report.add_violation(desc, {"family": "sorting", "record": rec})
    if not samples:
        samples = [json.loads(open(trace).readlines()[1])]
    report.coverage.update({
        "states": res.distinct + 2 * n, "transitions": n,
        "traces_validated_against_impl": n, "exhaustive": True,
        "triples_checked": ntri, "sort_calls_checked": nsort, "cube_K_model": K,
        "palettes": {"K3": hdr["pal3"], "K2": hdr["pal2"]},
        "layerP_operators": C19_LAWS + ["C19_NoZeroes", "C19_SortIsPermutation", "C19_SortIsOrdered"],
        "layerM_operators": ["M_Comparators", "M_Clock", "M_Sort"],
        "samples": samples,
    })
    report.assumptions += ["concrete clock times, clock ids and CIDs are order-isomorphic to the rank triples of the model "
                           "(several palettes incl. boundary and negative values)"]
    os.remove(trace)
