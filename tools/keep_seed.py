#!/usr/bin/env python3
"""usage: keep_seed.py <worktree> <seed-id> <property> <detected-by (comma list or 'none')> <needs...>
Archives a confirmed sub-agent change under /verif/seeded/<seed-id>/ (patch.diff, the demonstration, notes, meta.json)."""
import glob, json, os, shutil, sys
wt, sid, prop, det = sys.argv[1:5]
needs = " ".join(sys.argv[5:])
dst = os.path.join("/verif/seeded", sid)
os.makedirs(dst, exist_ok=True)
shutil.copy(os.path.join(wt, "_seed/patch.diff"), dst)
for f in glob.glob(os.path.join(wt, "_seed/*")):
    if f.endswith("_test.go") or f.endswith(".go"):
        shutil.copy(f, os.path.join(dst, os.path.basename(f) + ".txt"))   # .txt: not compiled by anything under /verif
    elif f.endswith("notes.md"):
        shutil.copy(f, dst)
meta = {
    "id": sid, "breaks_property": prop, "needs_to_manifest": needs,
    "base_commit": os.popen("git -C /repo rev-parse --short HEAD").read().strip(),
    "confirmed": {"how": "tools/confirm_seed.sh in the sub-agent's scratch worktree",
                  "suite_passes_with_change": True, "demo_fails_with_change": True, "demo_passes_without_change": True},
    "detected_by_quick_checks": [] if det == "none" else det.split(","),
    "ran": ["tools/confirm_seed.sh %s" % wt, "tools/try_seed.sh %s/_seed/patch.diff %s" % (wt, " ".join([] if det == "none" else det.split(",")))],
}
json.dump(meta, open(os.path.join(dst, "meta.json"), "w"), indent=1)
print("kept", dst)
