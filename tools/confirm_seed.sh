#!/bin/sh
# usage: tools/confirm_seed.sh /tmp/wt-Cxx   - re-confirm a sub-agent's seeded change in its scratch worktree:
#  (a) existing suite passes with the change, (b) demo fails with it, (c) demo passes without it
set -u
wt=$1
. /verif/env.sh
cd "$wt" || exit 2
demo=$(ls _seed/*_test.go 2>/dev/null | head -1)
[ -n "$demo" ] || { echo "no demo test in _seed"; exit 2; }
base=$(basename "$demo")
loc=$(git status --porcelain | grep "$base" | awk '{print $2}' | head -1)
[ -n "$loc" ] || loc=test/$base
tests=$(grep -ho "^func Test[A-Za-z0-9_]*" "$demo" | sed 's/func //' | paste -sd'|')
echo "demo=$loc tests=$tests"
mv "$loc" /tmp/seed-demo-hold.go
go build ./... && go build -tags verif ./... || { echo "BUILD FAILS"; mv /tmp/seed-demo-hold.go "$loc"; exit 1; }
a=$(go test -vet=off -count=1 ./... 2>&1 | grep -c "^FAIL\|^--- FAIL\|panic:")
mv /tmp/seed-demo-hold.go "$loc"
pkg=./$(dirname "$loc")
go test -vet=off -count=1 -run "^($tests)\$" "$pkg" >/tmp/seed-b.out 2>&1; b=$?
# never `git stash` here: the stash is shared by all worktrees of /repo
git apply -R _seed/patch.diff || { echo "cannot revert patch"; exit 2; }
go test -vet=off -count=1 -run "^($tests)\$" "$pkg" >/tmp/seed-c.out 2>&1; c=$?
git apply _seed/patch.diff
echo "(a) suite failures with change: $a   (b) demo exit with change: $b   (c) demo exit without change: $c"
if [ "$a" = 0 ] && [ "$b" != 0 ] && [ "$c" = 0 ]; then echo CONFIRMED; else echo NOT-CONFIRMED; tail -5 /tmp/seed-b.out /tmp/seed-c.out; fi
