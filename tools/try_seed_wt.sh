#!/bin/sh
# usage: tools/try_seed_wt.sh <worktree-with-change-applied> <Cxx> [<Cyy> ...]
# Preliminary look at a seeded change WITHOUT touching /repo (used while /repo is busy with the seed regression): the
# harness is built against the sub-agent's scratch worktree.  The recorded verdict for a seed always comes from
# try_seed.sh / seed_regress.py, which apply the patch to /repo itself and undo it afterwards.
set -u
wt=$1; shift
cd /verif
export VERIF_REPO=$wt
export VERIF_EVIDENCE_DIR=$(mktemp -d /tmp/seed-evidence.XXXXXX)
for p in "$@"; do
  echo "== $p"
  ./check "$p" --tier quick 2>&1 | grep -v "^  \|^built" | grep "VIOLATION\|KNOWN\|DRIFT\|quick:\|nconclusive" | tail -8
done
rm -rf "$VERIF_EVIDENCE_DIR"
