"""Family L (log CRDT): IpfsLog.tla explored by TLC, every explored history replayed on the
real code, observed traces validated against Trace_IpfsLog.tla."""
import json
import os
import random
import time

from vlib import (Inconclusive, NCPU, log, run, run_tlc, stage_spec, validate_traces, write_mc)

H_INV = ["H_WellFormed"]
M_INV = ["M_Values", "M_Heads", "M_Nidx", "M_ClockId", "M_Iterator", "M_ToString"]
M_PROP = ["M_Append", "M_AppendWriteFault", "M_Join", "M_SetIdentity", "M_Tamper", "M_Fork", "M_Load"]

# Layer-P operators of each property: (model invariants, model action properties,
#                                      trace invariants, trace action properties)
OPS = {
    "C01": (["C01_SameEntriesSameView"], ["C01_JoinIsUnion", "C01_NoOpJoins"],
            ["C01_SameEntriesSameView"], ["C01_JoinIsUnion", "C01_NoOpJoins"]),
    "C02": (["C02_HeadsAreMaximal", "C02_NonEmpty", "C02_HeadsInLog", "C02_NoDupHeads", "NidxExact", "Closed"], [],
            ["C02_HeadsAreMaximal", "C02_NonEmpty", "C02_HeadsInLog", "C02_AccessorsAgree"], []),
    "C03": (["C03_Permutation", "C03_Causal", "C03_Sorted", "ClockMonotoneAlongNext"], [],
            ["C03_Permutation", "C03_Causal", "C03_Sorted"], []),
    "C04": (["ClockDominates"], ["C04_Append"], [], ["C04_Append"]),
    "C05": ([], ["C05_EntriesMonotone", "C05_ValuesSubsequence", "C05_OthersUntouched"],
            ["C05_OneContentPerHash", "C05_IndexIntact"],
            ["C05_EntriesMonotone", "C05_ValuesSubsequence", "C05_DigestsStable", "C05_OthersUntouched", "C05_RebuildSucceeds"]),
    "C06": (["C06_HeadsStayInLog"], ["C06_OnlyValidAdded"],
            ["C06_HonestHoldGenuine"],
            ["C06_AppendDenied", "C06_DeniedWriterCannotAppend", "C06_AppendedVerifies", "C06_AllOrNothing",
             "C06_OnlyValidAdded", "C06_BadCandidateRejected", "C06_ValidJoinSucceeds"]),
    "C15": (["C15_AlgoMeetsSpec"], [], ["C15_IterMeetsSpec"], []),
    "C17": (["C17_LinksPointBack"], [], [],
            ["C17_StoreClosed", "C17_StoreStaysClosed", "C17_WrittenBeforeReturned", "C17_Recoverable", "C17_StillRecoverable",
             "C17_PublishResult", "C17_FailedWriteLeavesLog", "C17_FailedPublish"]),
    "C18": ([], [], [], ["C18_NoClearLinks", "C18_SameKeyRecovers", "C18_OtherKeyGetsNothing", "C18_AuditedSomething",
                         "C06_AppendedVerifies", "C06_ValidJoinSucceeds"]),
    "C16": ([], ["C16_Bounded"], [], ["C16_NoPanic", "C16_LastN"]),
}


def base_consts(**kw):
    c = dict(NR=3, Writer0=[1, 2, 1], Lid=["X", "X", "X"], Fn="LWW", MaxE=4, MaxOps=6, PCs={1},
             Sizes=set(), Writers=set(), Denied=[set(), set(), set()], HashPerm="id", IterOn=set(), Evil=set(), Kinds=set(), MaxBad=0, PubOn=set(), WriteFaults=False, ForkOn=set(), LoadKinds=set(), CrossFork=False, Payloads={"p"}, ForkModes={"copy"})
    c.update(kw)
    return c


def harness_cfg(consts, seed, codec="cbor", audit="", concurrency=0, payload="", shared_options=False, clock_base=0, pin=False):
    return {"Concurrency": concurrency, "NR": consts["NR"], "Writer0": list(consts["Writer0"]), "Lid": list(consts["Lid"]),
            "Fn": consts["Fn"], "Denied": [sorted(d) for d in consts["Denied"]], "Codec": codec, "Seed": seed,
            "Audit": audit, "Payload": payload, "SharedOptions": shared_options, "ClockBase": clock_base, "Pin": pin}


def explore(specdir, name, consts, invs, props, workers=NCPU, timeout=1500, simulate=None, seed=1):
    """Runs TLC on IpfsLog.tla; returns the TlcResult (with the exported histories)."""
    write_mc(specdir, "IpfsLog", consts, invariants=["TypeOK"] + invs, properties=props,
             view="View", constraint="Export", name=name)
    extra = ()
    if simulate:
        num, depth = simulate
        extra = ("-simulate", "num=%d" % num, "-depth", str(depth), "-seed", str(seed))
        workers = 1
    res = run_tlc(specdir, name, workers=workers, timeout=timeout, extra=extra)
    if res.violated and not res.crashed:
        # TLC stops at the first counterexample: explore again without properties so that every
        # history is still exported and replayed (verdicts come from the replay only)
        write_mc(specdir, "IpfsLog", consts, invariants=["TypeOK"], properties=[],
                 view="View", constraint="Export", name=name + "X")
        res2 = run_tlc(specdir, name + "X", workers=workers, timeout=timeout, extra=extra)
        res2.violated = res.violated
        return res2
    return res


def maximal_only(scripts):
    """Drops scripts that are a proper prefix of another one (simulation prints every prefix)."""
    parsed = [json.loads(s) for s in scripts]
    prefixes = set()
    for s in parsed:
        for k in range(1, len(s)):
            prefixes.add(json.dumps(s[:k], separators=(",", ":")))
    out = []
    for s in parsed:
        key = json.dumps(s, separators=(",", ":"))
        if key not in prefixes:
            out.append(key)
    return out


class Crash(Exception):
    """The harness process died inside go-ipfs-log (a panic on a goroutine of the library)."""

    def __init__(self, script, frames, output):
        Exception.__init__(self, "crash")
        self.script, self.frames, self.output = script, frames, output


def _lib_frames(out):
    """Stack frames of the first panicking goroutine; library frames only."""
    frames = []
    started = False
    for line in out.splitlines():
        if line.startswith("goroutine ") and "[running]" in line:
            if started:
                break
            started = True
            continue
        if started and line and not line.startswith("\t") and "(" in line:
            frames.append(line.split("(")[0].strip())
    return frames


def replay(binpath, scratch, tag, hcfg, scripts, mode, complete=False, workers=NCPU, timeout=1500, isolate=True):
    cfgp = os.path.join(scratch, tag + ".cfg.json")
    scp = os.path.join(scratch, tag + ".scripts.ndjson")
    outp = os.path.join(scratch, tag + ".trace.ndjson")
    prog = os.path.join(scratch, tag + ".progress")
    json.dump(hcfg, open(cfgp, "w"))
    with open(scp, "w") as f:
        for s in scripts:
            f.write(s + "\n")
    if os.path.exists(prog):
        os.remove(prog)
    cmd = [binpath, "lrun", "-cfg", cfgp, "-scripts", scp, "-out", outp, "-mode", mode, "-workers", str(workers),
           "-progress", prog]
    if complete:
        cmd.append("-complete")
    p = run(cmd, timeout=timeout)
    if p.returncode != 0:
        out = p.stdout
        if ("panic:" in out or "fatal error:" in out) and "goroutine " in out:
            frames = _lib_frames(out)
            in_lib = [f for f in frames if f.startswith("berty.tech/go-ipfs-log")]
            in_harness = [f for f in frames if f.startswith("verif/harness")]
            if in_lib and not (in_harness and frames.index(in_harness[0]) < frames.index(in_lib[0])) and isolate:
                # which script was running?  re-run the unfinished ones alone
                started, done = [], set()
                if os.path.exists(prog):
                    for line in open(prog):
                        t, sid = line.split()
                        (started.append(int(sid)) if t == "S" else done.add(int(sid)))
                for sid in [x for x in started if x not in done]:
                    try:
                        replay(binpath, scratch, tag + "-iso%d" % sid, hcfg, [scripts[sid - 1]], mode, complete,
                               workers=1, timeout=300, isolate=False)
                    except Crash as c:
                        raise Crash(json.loads(scripts[sid - 1]), c.frames, c.output)
                    except Inconclusive:
                        continue
                raise Inconclusive("harness crashed inside the library but no single script reproduces it:\n" + out[-3000:])
            if in_lib and not isolate:
                raise Crash(None, in_lib, out[-3000:])
        raise Inconclusive("harness lrun failed (%d):\n%s" % (p.returncode, out[-3000:]))
    log("  " + p.stdout.strip().splitlines()[-1])
    return outp


def classify(report, prop, viols, hcfg, scripts_by_sid=None):
    """Turns (operator, record) pairs from trace validation into violations / drift."""
    for op, rec in viols:
        desc = {"operator": op}
        if rec:
            desc.update({"op": rec.get("op"), "err": bool(rec.get("err")), "panic": rec.get("panic", False)})
        if rec and rec.get("iter"):
            it = rec["iter"]
            desc.update({
                "upper": "lte%d" % len(it["lte"]) if it["lte"] else ("lt" if it["lt"] else "heads"),
                "lower": "gte" if it["gte"] else ("gt" if it["gt"] else "none"),
                "amount": "none" if it["amount"] < 0 else ("zero" if it["amount"] == 0 else
                                                           ("le_out" if it["amount"] <= len(it["out"]) else "gt_out")),
                "closed": it["closed"], "iter_err": bool(it["err"]), "iter_panic": it["panic"] or it["hung"],
            })
        if rec and rec.get("op") in ("J", "JB", "A") and prop == "C06":
            desc["codec"] = hcfg.get("Codec")
            if rec.get("op") != "A":
                src = rec["pre"][rec["s"] - 1]
                desc["src_bad_kinds"] = sorted({b["kind"] for b in src.get("bad", [])})
        if op.startswith("H_"):
            raise Inconclusive("harness trace not well formed (%s): %s" % (op, json.dumps(rec)[:600]))
        if op.startswith("M_"):
            report.add_drift("%s on op %s" % (op, rec.get("op") if rec else "?"))
            continue
        payload = {"family": "L", "cfg": hcfg, "record": rec}
        if rec and scripts_by_sid is not None:
            payload["script"] = scripts_by_sid.get(rec.get("sid"))
        report.add_violation(desc, payload)


def run_family_l(prop, tier, seed, report, scratch, binpath, plans):
    """plans: list of dicts {name, consts, simulate?, mode, complete?, codec?, max_scripts?}"""
    specdir = stage_spec(scratch)
    minv, mprop, tinv, tprop = OPS[prop]
    states = transitions = traces = 0
    samples = []
    exhaustive = True
    for plan in plans:
        consts = plan["consts"]
        t0 = time.time()
        if plan.get("scripts"):
            # hand-picked histories (shapes no bounded exploration reaches, e.g. a fork of eight branches): not generated
            # by TLC, but replayed and validated by TLC against the same trace specification as every other history
            res = type("Given", (), {"crashed": False, "violated": [], "generated": 0, "distinct": 0,
                                     "hist_lines": lambda self: [json.dumps(x, separators=(",", ":")) for x in plan["scripts"]]})()
        else:
            res = explore(specdir, plan["name"], consts, minv, mprop, simulate=plan.get("simulate"), seed=seed,
                          timeout=plan.get("timeout", 1500))
        if res.crashed and not res.violated:
            raise Inconclusive("TLC failed on %s:\n%s" % (plan["name"], res.out[-3000:]))
        if res.violated:
            # a counterexample in the model only: never a verdict; the replay below decides
            report.notes.append("model-level counterexample in %s: %s" % (plan["name"], res.violated))
            report.coverage.setdefault("model_only_counterexamples", []).append(
                {"plan": plan["name"], "operators": res.violated})
        scripts = res.hist_lines()
        if plan.get("simulate") or plan.get("scripts"):
            scripts = maximal_only(scripts)
            exhaustive = False
        else:
            states += res.distinct
            transitions += res.generated
        if plan.get("max_scripts") and len(scripts) > plan["max_scripts"]:
            # (TLC prints the histories in an order that depends on its worker threads: sort first, so that the sample is a
            #  function of the seed alone)
            rnd = random.Random(seed)
            scripts = rnd.sample(sorted(scripts), plan["max_scripts"])
            exhaustive = False
        log("  %s: TLC %d generated / %d distinct in %.1fs, %d scripts" %
            (plan["name"], res.generated, res.distinct, time.time() - t0, len(scripts)))
        if not scripts:
            raise Inconclusive("TLC exported no history for " + plan["name"])
        hcfg = harness_cfg(consts, seed, plan.get("codec", "cbor"), plan.get("audit", ""), plan.get("concurrency", 0),
                           plan.get("payload", ""), plan.get("shared_options", False), plan.get("clock_base", 0), plan.get("pin", False))
        t1 = time.time()
        try:
            trace = replay(binpath, scratch, plan["name"], hcfg, scripts, plan.get("mode", "last"),
                           complete=plan.get("complete", False))
        except Crash as c:
            # a panic on a library goroutine takes the whole process down: the property's
            # operations did not complete (and nothing can be validated for this plan)
            report.add_violation({"operator": prop + "_NoCrash", "crash": True, "codec": hcfg.get("Codec"),
                                  "frame": c.frames[0] if c.frames else "?"},
                                 {"family": "L", "cfg": hcfg, "script": c.script, "stack": c.output[-2500:]})
            report.coverage.setdefault("plans", []).append({"name": plan["name"], "crashed": True})
            exhaustive = False
            continue
        t2 = time.time()
        n, viols, bad = validate_traces(specdir, "Trace_IpfsLog", trace, H_INV + tinv + M_INV, tprop + M_PROP, scratch)
        log("  %s: replay %.1fs, validated %d records in %.1fs, %d operator failures" %
            (plan["name"], t2 - t1, n, time.time() - t2, len(viols)))
        if bad:
            raise Inconclusive(bad)
        traces += n
        by_sid = {i + 1: json.loads(s) for i, s in enumerate(scripts)}
        classify(report, prop, viols, hcfg, by_sid)
        rnd = random.Random(seed + len(samples))
        for s in rnd.sample(scripts, min(2, len(scripts))):
            samples.append({"plan": plan["name"], "history": json.loads(s)})
        report.coverage.setdefault("plans", []).append(
            {"name": plan["name"], "constants": {k: (sorted(v) if isinstance(v, (set, frozenset)) else
                                                     [sorted(x) if isinstance(x, (set, frozenset)) else x for x in v]
                                                     if isinstance(v, list) else v)
                                                 for k, v in consts.items()},
             "simulate": plan.get("simulate"), "tlc_generated": res.generated, "tlc_distinct": res.distinct,
             "histories_replayed": len(scripts), "records_validated": n})
        os.remove(trace)
    report.coverage.update({
        "states": states, "transitions": transitions, "traces_validated_against_impl": traces,
        "exhaustive": exhaustive,
        "layerP_operators": tinv + tprop, "layerM_operators": M_INV + M_PROP,
        "model_operators": minv + mprop,
    })
    nhist = sum(p.get("histories_replayed", 0) for p in report.coverage.get("plans", []))
    report.coverage.update({
        "evaluations": traces,
        "distinct_nontrivial": nhist,
        "rule": "one evaluation = one observed operation (pre/post state of every replica, the blocks it wrote and, for C17, "
                "the loaders run against the store prefix at its return) validated by TLC; distinct = distinct operation "
                "histories exported by TLC (each a different sequence of appends/joins/publications, all with at least one operation) "
                "and replayed on the real code",
    })
    report.coverage["samples"] = samples
