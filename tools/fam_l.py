"""Family L (log CRDT): IpfsLog.tla explored by TLC, every explored history replayed on the
real code, observed traces validated against Trace_IpfsLog.tla."""
import json
import os
import random
import time

from vlib import (Inconclusive, NCPU, log, run, run_tlc, stage_spec, validate_traces, write_mc)

H_INV = ["H_WellFormed"]
M_INV = ["M_Values", "M_Heads", "M_Nidx", "M_ClockId", "M_Iterator"]
M_PROP = ["M_Append", "M_Join", "M_SetIdentity"]

# Layer-P operators of each property: (model invariants, model action properties,
#                                      trace invariants, trace action properties)
OPS = {
    "C01": (["C01_SameEntriesSameView"], ["C01_JoinIsUnion", "C01_NoOpJoins"],
            ["C01_SameEntriesSameView"], ["C01_JoinIsUnion", "C01_NoOpJoins"]),
    "C02": (["C02_HeadsAreMaximal", "C02_NonEmpty", "C02_HeadsInLog", "C02_NoDupHeads", "NidxExact", "Closed"], [],
            ["C02_HeadsAreMaximal", "C02_NonEmpty", "C02_HeadsInLog", "C02_AccessorsAgree"], []),
    "C03": (["C03_Permutation", "C03_Causal", "C03_Sorted", "ClockMonotoneAlongNext"], [],
            ["C03_Permutation", "C03_Causal", "C03_Sorted"], []),
    "C04": (["ClockDominates"], ["C04_Append"], [], ["C04_Append"]),
    "C05": ([], ["C05_EntriesMonotone", "C05_ValuesSubsequence", "C05_OthersUntouched"],
            ["C05_OneContentPerHash"],
            ["C05_EntriesMonotone", "C05_ValuesSubsequence", "C05_DigestsStable", "C05_OthersUntouched"]),
    "C15": (["C15_AlgoMeetsSpec"], [], ["C15_IterMeetsSpec"], []),
    "C16": ([], ["C16_Bounded"], [], ["C16_NoPanic", "C16_LastN"]),
}


def base_consts(**kw):
    c = dict(NR=3, Writer0=[1, 2, 1], Lid=["X", "X", "X"], Fn="LWW", MaxE=4, MaxOps=6, PCs={1},
             Sizes=set(), Writers=set(), Denied=[set(), set(), set()], HashPerm="id", IterOn=set())
    c.update(kw)
    return c


def harness_cfg(consts, seed, codec="cbor"):
    return {"NR": consts["NR"], "Writer0": list(consts["Writer0"]), "Lid": list(consts["Lid"]),
            "Fn": consts["Fn"], "Denied": [sorted(d) for d in consts["Denied"]], "Codec": codec, "Seed": seed}


def explore(specdir, name, consts, invs, props, workers=NCPU, timeout=1500, simulate=None, seed=1):
    """Runs TLC on IpfsLog.tla; returns the TlcResult (with the exported histories)."""
    write_mc(specdir, "IpfsLog", consts, invariants=["TypeOK"] + invs, properties=props,
             view="View", constraint="Export", name=name)
    extra = ()
    if simulate:
        num, depth = simulate
        extra = ("-simulate", "num=%d" % num, "-depth", str(depth), "-seed", str(seed))
        workers = 1
    return run_tlc(specdir, name, workers=workers, timeout=timeout, extra=extra)


def maximal_only(scripts):
    """Drops scripts that are a proper prefix of another one (simulation prints every prefix)."""
    parsed = [json.loads(s) for s in scripts]
    prefixes = set()
    for s in parsed:
        for k in range(1, len(s)):
            prefixes.add(json.dumps(s[:k], separators=(",", ":")))
    out = []
    for s in parsed:
        key = json.dumps(s, separators=(",", ":"))
        if key not in prefixes:
            out.append(key)
    return out


def replay(binpath, scratch, tag, hcfg, scripts, mode, complete=False, workers=NCPU, timeout=1500):
    cfgp = os.path.join(scratch, tag + ".cfg.json")
    scp = os.path.join(scratch, tag + ".scripts.ndjson")
    outp = os.path.join(scratch, tag + ".trace.ndjson")
    json.dump(hcfg, open(cfgp, "w"))
    with open(scp, "w") as f:
        for s in scripts:
            f.write(s + "\n")
    cmd = [binpath, "lrun", "-cfg", cfgp, "-scripts", scp, "-out", outp, "-mode", mode, "-workers", str(workers)]
    if complete:
        cmd.append("-complete")
    p = run(cmd, timeout=timeout)
    if p.returncode != 0:
        raise Inconclusive("harness lrun failed (%d):\n%s" % (p.returncode, p.stdout[-3000:]))
    log("  " + p.stdout.strip().splitlines()[-1])
    return outp


def classify(report, prop, viols, hcfg, scripts_by_sid=None):
    """Turns (operator, record) pairs from trace validation into violations / drift."""
    for op, rec in viols:
        desc = {"operator": op}
        if rec:
            desc.update({"op": rec.get("op"), "err": bool(rec.get("err")), "panic": rec.get("panic", False)})
        if rec and rec.get("iter"):
            it = rec["iter"]
            desc.update({
                "upper": "lte%d" % len(it["lte"]) if it["lte"] else ("lt" if it["lt"] else "heads"),
                "lower": "gte" if it["gte"] else ("gt" if it["gt"] else "none"),
                "amount": "none" if it["amount"] < 0 else ("zero" if it["amount"] == 0 else
                                                           ("le_out" if it["amount"] <= len(it["out"]) else "gt_out")),
                "closed": it["closed"], "iter_err": bool(it["err"]), "iter_panic": it["panic"] or it["hung"],
            })
        if op.startswith("H_"):
            raise Inconclusive("harness trace not well formed (%s): %s" % (op, json.dumps(rec)[:600]))
        if op.startswith("M_"):
            report.add_drift("%s on op %s" % (op, rec.get("op") if rec else "?"))
            continue
        payload = {"family": "L", "cfg": hcfg, "record": rec}
        if rec and scripts_by_sid is not None:
            payload["script"] = scripts_by_sid.get(rec.get("sid"))
        report.add_violation(desc, payload)


def run_family_l(prop, tier, seed, report, scratch, binpath, plans):
    """plans: list of dicts {name, consts, simulate?, mode, complete?, codec?, max_scripts?}"""
    specdir = stage_spec(scratch)
    minv, mprop, tinv, tprop = OPS[prop]
    states = transitions = traces = 0
    samples = []
    exhaustive = True
    for plan in plans:
        consts = plan["consts"]
        t0 = time.time()
        res = explore(specdir, plan["name"], consts, minv, mprop, simulate=plan.get("simulate"), seed=seed,
                      timeout=plan.get("timeout", 1500))
        if res.crashed and not res.violated:
            raise Inconclusive("TLC failed on %s:\n%s" % (plan["name"], res.out[-3000:]))
        if res.violated:
            # a counterexample in the model only: never a verdict; the replay below decides
            report.notes.append("model-level counterexample in %s: %s" % (plan["name"], res.violated))
            report.coverage.setdefault("model_only_counterexamples", []).append(
                {"plan": plan["name"], "operators": res.violated})
        scripts = res.hist_lines()
        if plan.get("simulate"):
            scripts = maximal_only(scripts)
            exhaustive = False
        else:
            states += res.distinct
            transitions += res.generated
        if plan.get("max_scripts") and len(scripts) > plan["max_scripts"]:
            rnd = random.Random(seed)
            scripts = rnd.sample(scripts, plan["max_scripts"])
            exhaustive = False
        log("  %s: TLC %d generated / %d distinct in %.1fs, %d scripts" %
            (plan["name"], res.generated, res.distinct, time.time() - t0, len(scripts)))
        if not scripts:
            raise Inconclusive("TLC exported no history for " + plan["name"])
        hcfg = harness_cfg(consts, seed, plan.get("codec", "cbor"))
        t1 = time.time()
        trace = replay(binpath, scratch, plan["name"], hcfg, scripts, plan.get("mode", "last"),
                       complete=plan.get("complete", False))
        t2 = time.time()
        n, viols, bad = validate_traces(specdir, "Trace_IpfsLog", trace, H_INV + tinv + M_INV, tprop + M_PROP, scratch)
        log("  %s: replay %.1fs, validated %d records in %.1fs, %d operator failures" %
            (plan["name"], t2 - t1, n, time.time() - t2, len(viols)))
        if bad:
            raise Inconclusive(bad)
        traces += n
        by_sid = {i + 1: json.loads(s) for i, s in enumerate(scripts)}
        classify(report, prop, viols, hcfg, by_sid)
        rnd = random.Random(seed + len(samples))
        for s in rnd.sample(scripts, min(2, len(scripts))):
            samples.append({"plan": plan["name"], "history": json.loads(s)})
        report.coverage.setdefault("plans", []).append(
            {"name": plan["name"], "constants": {k: (sorted(v) if isinstance(v, (set, frozenset)) else
                                                     [sorted(x) if isinstance(x, (set, frozenset)) else x for x in v]
                                                     if isinstance(v, list) else v)
                                                 for k, v in consts.items()},
             "simulate": plan.get("simulate"), "tlc_generated": res.generated, "tlc_distinct": res.distinct,
             "histories_replayed": len(scripts), "records_validated": n})
        os.remove(trace)
    report.coverage.update({
        "states": states, "transitions": transitions, "traces_validated_against_impl": traces,
        "exhaustive": exhaustive,
        "layerP_operators": tinv + tprop, "layerM_operators": M_INV + M_PROP,
        "model_operators": minv + mprop,
    })
    report.coverage["samples"] = samples
