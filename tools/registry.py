"""Which machinery decides which property, and with which bounds per tier."""
import json
import os

import fam_l
import fam_misc
import fam_f
import fam_k
import fam_d
from fam_l import base_consts
from vlib import Inconclusive, build_harness, log


# ---------------------------------------------------------------------------
# family L plans

def plans_core(prop, tier, seed):
    """C01, C02, C03, C05: histories of appends and unbounded merges."""
    q = tier == "quick"
    plans = [
        dict(name="exhLWW", consts=base_consts(Fn="LWW", MaxE=4, MaxOps=5 if q else 7)),
        dict(name="exhHASH", consts=base_consts(Fn="HASH", MaxE=4 if q else 5, MaxOps=5 if q else 6,
                                                 HashPerm="rev")),
        dict(name="complete", consts=base_consts(Fn="LWW" if seed % 2 else "HASH", MaxE=4, MaxOps=5),
             max_scripts=600 if q else 6000, complete=True),
        dict(name="sim", consts=base_consts(NR=4, Writer0=[1, 2, 3, 1], Lid=["X"] * 4, Denied=[set()] * 4,
                                            Fn="HASH" if seed % 2 else "LWW", MaxE=16, MaxOps=28, PCs={1, 2, 4},
                                            Payloads={"p", "empty"}),
             simulate=(12 if q else 200, 28), mode="all", complete=True),
    ]
    # refused appends (identity switched to a writer the log's own controller denies) and rejected merges
    # (candidates by a denied writer) in the middle of histories: the log must stay sound afterwards
    # (verification concurrency 2: a merge of three or more new entries is verified in several batches)
    plans.append(dict(name="exhDeny", concurrency=2,
                      consts=base_consts(NR=3, Writer0=[1, 2, 3], Denied=[{2}, {1}, set()], Writers={2},
                                         MaxE=4, MaxOps=6 if q else 7),
                      max_scripts=25000 if q else 400000))
    # replicas rebuilt from another replica's entries and heads (NewLog with options), then both sides grow
    # (both ways of handing over the entries: a copy, or the source's own entry index; the replicas themselves are opened
    #  from one LogOptions value)
    plans.append(dict(name="exhFork", shared_options=True,
                      consts=base_consts(NR=3, Writer0=[1, 2, 1], MaxE=5 if q else 6, MaxOps=6 if q else 7,
                                         ForkOn={2, 3}, ForkModes={"copy", "live"}),
                      max_scripts=25000 if q else 300000))
    # two replicas only, exhaustively: a log rebuilt from the other's entries, then both sides keep appending (longer histories
    # than the three-replica plan reaches unsampled: the entry index of the copy outgrows the capacity it was copied with)
    plans.append(dict(name="exhFork2", consts=base_consts(NR=2, Writer0=[1, 2], Lid=["X"] * 2, Denied=[set()] * 2, MaxE=6, MaxOps=7 if q else 8,
                                                         ForkOn={2}),
                      max_scripts=40000 if q else 400000))
    # replicas read back from the store by each loader (from entries, a JSON snapshot, an entry hash, a manifest)
    plans.append(dict(name="exhLoad", consts=base_consts(NR=3, Writer0=[1, 2, 1], MaxE=4 if q else 5, MaxOps=5 if q else 6,
                                                        Fn="HASH" if seed % 2 else "LWW", ForkOn={3},
                                                        LoadKinds={"entry", "json", "hash", "mh"}),
                      max_scripts=25000 if q else 300000))
    if prop == "C02":
        # logs holding entries of two ids (a log with its own id rebuilt on another log's entries, twice over): a replica that
        # merges from them holds a closed set of entries of its own id, and its heads are the maximal ones
        plans.append(dict(name="crossfork2", consts=base_consts(NR=3, Writer0=[1, 2, 1], Lid=["X", "Y", "X"], MaxE=4, MaxOps=6 if q else 7,
                                                               ForkOn={1, 2}, CrossFork=True),
                          max_scripts=30000 if q else 300000))
        # sources cut by a bounded merge, then merged from without bound
        plans.append(dict(name="fromBounded", consts=base_consts(NR=3, Writer0=[1, 2, 3], MaxE=4, MaxOps=5 if q else 6, Sizes={1, 2}),
                          max_scripts=20000 if q else 300000))
    if prop == "C03":
        # the same small histories with every clock starting just below 2^53 (times a float64 cannot all represent)
        plans.append(dict(name="exhBigCore", clock_base=2 ** 53 - 2,
                          consts=base_consts(NR=3, Writer0=[1, 2, 3], MaxE=4, MaxOps=5 if q else 6)))
    if prop == "C05":
        # under the link-sealing codec, with replicas read back from the store (their decoded entries carry no sealed
        # form in memory): verification during a merge must not touch the entry objects another log holds
        plans.append(dict(name="lk1load", codec="cbor+lk1",
                          consts=base_consts(NR=2, Writer0=[1, 2], Lid=["X"] * 2, Denied=[set()] * 2, MaxE=4, MaxOps=5 if q else 6,
                                             ForkOn={1, 2}, LoadKinds={"entry", "mh"}),
                          max_scripts=20000 if q else 200000))
    if not q:
        plans.append(dict(name="exhLWW4", consts=base_consts(NR=4, Writer0=[1, 2, 3, 1], Lid=["X"] * 4,
                                                             Denied=[set()] * 4, MaxE=4, MaxOps=5)))
        plans.append(dict(name="exhForeign", consts=base_consts(Lid=["X", "X", "Y"], MaxE=4, MaxOps=6)))
    return plans


def plans_c04(prop, tier, seed):
    q = tier == "quick"
    return [
        dict(name="exhPC", consts=base_consts(NR=2, Writer0=[1, 2], Lid=["X", "X"], Denied=[set(), set()],
                                              MaxE=5 if q else 6, MaxOps=6 if q else 8, PCs={1, 2, 3, 4, 8})),
        dict(name="exhSI", consts=base_consts(MaxE=4, MaxOps=5 if q else 6, PCs={1, 2}, Writers={1, 2, 3}),
             max_scripts=60000 if q else None),
        # appends to logs read back from the store (their clock starts behind their heads), under every comparator
        dict(name="exhLoadFWW", consts=base_consts(NR=3, Writer0=[1, 2, 3], MaxE=5, MaxOps=6 if q else 7, Fn="FWW", ForkOn={3},
                                                   LoadKinds={"entry", "mh"}),
             max_scripts=25000 if q else 300000),
        dict(name="exhLoadHASH", consts=base_consts(NR=3, Writer0=[1, 2, 3], MaxE=5, MaxOps=6, Fn="HASH", HashPerm="rev", ForkOn={3},
                                                    LoadKinds={"json", "hash"}),
             max_scripts=25000 if q else 300000),
        # logs whose clocks start just below 2^53 (LogOptions.Clock): the same histories, with times that a float64 cannot all
        # represent - a translation of the small-clock runs, traces are written relative to the base
        dict(name="exhBig", clock_base=2 ** 53 - 2,
             consts=base_consts(NR=3, Writer0=[1, 2, 1], MaxE=4, MaxOps=5 if q else 6, PCs={1, 2}, Writers={2})),
        # a fork of nine branches, one of them long (more heads than the pointer count, the newest head's ancestors
        # sorting above the other heads), then one append with each pointer count
        dict(name="wideFork", mode="all", consts=base_consts(NR=9, Writer0=[1, 2, 3, 4, 2, 3, 4, 2, 3], Lid=["X"] * 9,
                                                             Denied=[set()] * 9, MaxE=40, MaxOps=40, PCs={1, 2, 4, 8}),
             scripts=[[["A", 1, 1]] * 12 + [["A", k, 1] for k in range(2, 10)] + [["J", 1, k] for k in range(2, 10)] + [["A", 1, pc]]
                      for pc in (1, 2, 4, 8)]),
        dict(name="sim", consts=base_consts(NR=3, MaxE=40, MaxOps=60, PCs={1, 2, 3, 5, 8, 16, 33, 64},
                                            Writers={1, 2, 3}),
             simulate=(6 if q else 60, 60), mode="all"),
    ]


def plans_c16(prop, tier, seed):
    q = tier == "quick"
    return [
        dict(name="exhJB", consts=base_consts(NR=2, Writer0=[1, 2], Lid=["X"] * 2, Denied=[set()] * 2,
                                              MaxE=4 if q else 5, MaxOps=6 if q else 7, Sizes={0, 1, 2, 3, 4, 5, 6, 7}),
             max_scripts=None if q else 400000),
        # a third, empty replica receives a forked source with unbalanced branches in one bounded join
        dict(name="exhJB3", consts=base_consts(NR=3, Writer0=[1, 2, 3], MaxE=4, MaxOps=6, Sizes={1, 2, 3}),
             max_scripts=25000 if q else 300000),
        # orderings under which a flat sort of the entries is NOT the linearisation: first-write-wins, and two devices of one
        # writer (equal clocks, ties) - the cut must be taken from the linearisation the unbounded merge produces
        dict(name="exhJBfww", consts=base_consts(NR=2, Writer0=[1, 2], Lid=["X"] * 2, Denied=[set()] * 2, Fn="FWW",
                                                 MaxE=4, MaxOps=5 if q else 6, Sizes={0, 1, 2, 3})),
        dict(name="twinJB", mode="all", consts=base_consts(NR=3, Writer0=[1, 1, 1], MaxE=8, MaxOps=8, Sizes={1, 2, 3, 4}),
             scripts=[[["A", 1, 1]] * 3 + [["A", 2, 1]] * 2 + [["J", 3, 2], ["JB", 3, 1, n]] for n in (1, 2, 3, 4)]
                     + [[["A", 1, 1]] * 2 + [["A", 2, 1]] * 3 + [["J", 3, 1], ["JB", 3, 2, n]] for n in (1, 2, 3)]),
        dict(name="exhJBhash", consts=base_consts(NR=2, Writer0=[1, 1], Lid=["X"] * 2, Denied=[set()] * 2, Fn="HASH",
                                                  MaxE=4 if q else 5, MaxOps=5 if q else 7, Sizes={0, 1, 2, 3, 6})),
    ]


def plans_c06(prop, tier, seed):
    q = tier == "quick"
    kinds = {"unsigned", "missigned", "nokey", "payload", "wrongkey", "foreign"}
    plans = [
        # tampered copies at every position of the source, candidates or not
        dict(name="tamper", consts=base_consts(NR=2, Writer0=[1, 2], Lid=["X"] * 2, Denied=[set()] * 2,
                                               MaxE=3 if q else 4, MaxOps=6 if q else 7, Evil={1}, Kinds=kinds,
                                               MaxBad=1 if q else 2),
             max_scripts=40000 if q else None),
        # the same with the logs' verification concurrency set to 2 and to 1 (batches larger than the limit)
        dict(name="tamperConc2", concurrency=2,
             consts=base_consts(NR=2, Writer0=[1, 2], Lid=["X"] * 2, Denied=[set()] * 2, MaxE=4, MaxOps=6 if q else 7,
                                Evil={1}, Kinds={"unsigned", "missigned", "payload"}, MaxBad=1),
             max_scripts=30000 if q else None),
        # a genuine entry verified by one replica, then a tampered copy of it offered to a third one
        dict(name="tamper3q", consts=base_consts(NR=3, Writer0=[1, 2, 3], MaxE=2, MaxOps=5, Evil={1}, Kinds={"missigned", "payload"}, MaxBad=1),
             max_scripts=20000 if q else None),
        # access control: replica 2 denies writer 1, replica 3 denies everybody
        dict(name="acl", consts=base_consts(Denied=[set(), {1}, {1, 2}], MaxE=4, MaxOps=5 if q else 7)),
    ]
    # a log with its own id built (NewLog with entries) on the genuinely signed entries of a log with another id, then
    # extended: a clean replica merging from it admits the entries carrying its id only
    plans.append(dict(name="crossfork", consts=base_consts(NR=3, Writer0=[1, 2, 1], Lid=["X", "Y", "X"], MaxE=4, MaxOps=6,
                                                          ForkOn={1}, CrossFork=True),
                      max_scripts=30000 if q else 300000))
    # every codec configuration: appended entries verify and merge
    for codec in ("cbor+lk1", "pb"):
        plans.append(dict(name="codec_" + codec.replace("+", "_"), codec=codec,
                          consts=base_consts(NR=2, Writer0=[1, 2], Lid=["X"] * 2, Denied=[set()] * 2,
                                             MaxE=4, MaxOps=5 if q else 6, PCs={1, 3},
                                             Evil={1}, Kinds={"missigned"}, MaxBad=1)))
    if not q:
        plans.append(dict(name="tamper3", consts=base_consts(MaxE=4, MaxOps=6, Evil={1, 3}, Kinds=kinds, MaxBad=1),
                          max_scripts=150000))
    return plans


def plans_c17(prop, tier, seed):
    q = tier == "quick"
    return [
        # exhaustive and unsampled: every history <= 6 (7) ops with publications on replica 1; every transition of the
        # explored graph is observed once (mode last), incl. publish / merge of a replica that is not ahead / publish
        dict(name="crashExh", audit="c17", mode="last",
             consts=base_consts(NR=2, Writer0=[1, 2], Lid=["X"] * 2, Denied=[set()] * 2, MaxE=3, MaxOps=6 if q else 7,
                                PCs={1}, PubOn={1})),
        dict(name="crash", audit="c17", mode="all",
             consts=base_consts(NR=2, Writer0=[1, 2], Lid=["X"] * 2, Denied=[set()] * 2, MaxE=4, MaxOps=6 if q else 7,
                                PCs={1, 2}, PubOn={1, 2}),
             max_scripts=3000 if q else 40000),
        # the store refuses individual block writes: what was returned before stays loadable, the store stays closed
        dict(name="writefault", audit="c17", mode="all",
             consts=base_consts(NR=2, Writer0=[1, 2], Lid=["X"] * 2, Denied=[set()] * 2, MaxE=3, MaxOps=6 if q else 7,
                                PCs={1, 2}, PubOn={1}, WriteFaults=True),
             max_scripts=4000 if q else 40000),
        # two replicas that share a writer identity, one of them read-only (its controller refuses that writer), identical
        # payloads: the refused append of the read-only replica produces the very block the other one appended earlier
        dict(name="twin", audit="c17", mode="all", payload="const",
             consts=base_consts(NR=2, Writer0=[1, 1], Lid=["X"] * 2, Denied=[set(), {1}], MaxE=4, MaxOps=5 if q else 6,
                                PCs={1}, PubOn={1}),
             max_scripts=4000 if q else 40000),
        # the same twins, nobody refused, but the store refuses individual writes (entry and manifest blocks): a block one
        # replica failed to write is written by whoever produces it next
        dict(name="twinFault", audit="c17", mode="all", payload="const",
             consts=base_consts(NR=2, Writer0=[1, 1], Lid=["X"] * 2, Denied=[set(), set()], MaxE=3, MaxOps=5 if q else 6,
                                PCs={1}, PubOn={1}, WriteFaults=True),
             max_scripts=5000 if q else 50000),
        # appends that ask for their block to be pinned, with refused block writes
        dict(name="writefaultPin", audit="c17", mode="all", pin=True,
             consts=base_consts(NR=2, Writer0=[1, 2], Lid=["X"] * 2, Denied=[set()] * 2, MaxE=3, MaxOps=5 if q else 6,
                                PCs={1}, PubOn={1}, WriteFaults=True),
             max_scripts=3000 if q else 30000),
        # size-bounded merges inside the histories: trimming the in-memory window must never touch the store (S17h)
        dict(name="crashJB", audit="c17", mode="all",
             consts=base_consts(NR=2, Writer0=[1, 2], Lid=["X"] * 2, Denied=[set()] * 2, MaxE=4, MaxOps=6 if q else 7,
                                PCs={1}, PubOn={1}, Sizes={1, 2}),
             max_scripts=2500 if q else 30000),
        dict(name="crash3", audit="c17", mode="all",
             consts=base_consts(MaxE=4 if q else 5, MaxOps=6 if q else 8, PCs={1, 4}, PubOn={1}, Fn="HASH"),
             max_scripts=1500 if q else 30000),
        dict(name="crashSim", audit="c17", mode="all",
             consts=base_consts(NR=3, MaxE=14, MaxOps=30, PCs={1, 2, 4, 8}, PubOn={1, 2, 3}, Payloads={"p", "empty"}),
             simulate=(6 if q else 60, 30)),
    ]


def plans_c18(prop, tier, seed):
    q = tier == "quick"
    return [
        dict(name="lk1", audit="c18", codec="cbor+lk1",
             consts=base_consts(NR=2, Writer0=[1, 2], Lid=["X"] * 2, Denied=[set()] * 2, MaxE=4 if q else 5,
                                MaxOps=5 if q else 7, PCs={1, 2, 4})),
        # a log read back from the store keeps sealing what it appends
        dict(name="lk1load", audit="c18", codec="cbor+lk1",
             consts=base_consts(NR=2, Writer0=[1, 2], Lid=["X"] * 2, Denied=[set()] * 2, MaxE=4, MaxOps=5 if q else 6, PCs={1, 2},
                                ForkOn={1, 2}, LoadKinds={"entry", "json", "hash", "mh"}),
             max_scripts=20000 if q else 200000),
        # two replicas sharing one writer identity (and one codec instance), identical payloads, different pointer counts:
        # entries that differ in their references only
        dict(name="lk1twin", audit="c18", codec="cbor+lk1", payload="const", mode="all",
             consts=base_consts(NR=2, Writer0=[1, 1], Lid=["X"] * 2, Denied=[set()] * 2, MaxE=4 if q else 5, MaxOps=5 if q else 6,
                                PCs={1, 4}),
             max_scripts=6000 if q else 60000),
        dict(name="lk2", audit="c18", codec="cbor+lk2", mode="all",
             consts=base_consts(NR=3, MaxE=12, MaxOps=24, PCs={1, 2, 4, 8}),
             simulate=(6 if q else 60, 24)),
    ]


def plans_c15(prop, tier, seed):
    q = tier == "quick"
    return [
        dict(name="iterLWW", consts=base_consts(NR=2, Writer0=[1, 2], Lid=["X"] * 2, Denied=[set()] * 2,
                                                MaxE=3 if q else 4, MaxOps=6 if q else 7, IterOn={1})),
        dict(name="iterHASH", consts=base_consts(NR=2, Writer0=[1, 1], Lid=["X"] * 2, Denied=[set()] * 2, Fn="HASH",
                                                 MaxE=4, MaxOps=7, IterOn={1}, HashPerm="rev"),
             max_scripts=20000 if q else None),
        dict(name="iterBig", consts=base_consts(NR=3, MaxE=5, MaxOps=8, IterOn={1, 2}),
             max_scripts=10000 if q else 150000, timeout=3000),
    ][:2 if q else 3]


def run_l(planner):
    def _run(prop, tier, seed, report, scratch):
        binpath = build_harness(scratch)
        fam_l.run_family_l(prop, tier, seed, report, scratch, binpath, planner(prop, tier, seed))
        report.assumptions += [
            "TLC 2026.09.04 and the CommunityModules Json reader are trusted",
            "bounded exhaustive exploration (constants in coverage.plans) plus seeded simulation",
            "fake in-memory block store stands in for the kubo node",
        ]
    return _run


def run_c18(prop, tier, seed, report, scratch):
    """Histories under the link-encrypting codec (family L) + every entry shape written directly (Codec.tla's C18Shapes)."""
    run_l(plans_c18)(prop, tier, seed, report, scratch)
    cov = dict(report.coverage)
    fam_d.run_family_d(prop, tier, seed, report, scratch)
    # keep the model-checking counts of the history part, add the shape part next to them
    shape_part = {k: report.coverage.get(k) for k in ("evaluations", "distinct_nontrivial", "obligations_exported_by_tlc")}
    for k in ("states", "transitions", "traces_validated_against_impl", "plans", "exhaustive", "model_operators"):
        if k in cov:
            report.coverage[k] = cov[k]
    report.coverage["layerP_operators"] = cov.get("layerP_operators", []) + fam_d.P_OPS["C18"]
    report.coverage["layerM_operators"] = cov.get("layerM_operators", [])
    report.coverage["samples"] = cov.get("samples", []) + report.coverage.get("samples", [])
    report.coverage["direct_entry_shapes"] = shape_part


def apalache_stage(report, scratch, tier, module, consts, consequence=None):
    """Inductiveness check with Apalache: IndInv holds initially and is preserved by every step from EVERY state satisfying
    it (all DAGs over the entry universe, not only the histories a bounded TLC run reaches); optionally IndInv => consequence.
    The stage never produces a verdict about the code (the binding is the family-L replay): its outcome is recorded in the
    evidence, a failure or timeout is a note."""
    import shutil
    import subprocess
    from vlib import SPEC, run
    d = os.path.join(scratch, "apalache-" + module)
    os.makedirs(d, exist_ok=True)
    shutil.copy(os.path.join(SPEC, module + ".tla"), d)
    open(os.path.join(d, "ci.cfg"), "w").write("CONSTANTS\n" + "".join(" %s = %d\n" % kv for kv in consts.items())
                                               + "INIT IndInit\nNEXT Next\nINVARIANT IndInv\n")
    out = dict(consts)
    out["module"] = module
    ok = "The outcome is: NoError"
    try:
        common = ["apalache-mc", "check", "--config=ci.cfg", "--out-dir=" + d + "/out"]
        p1 = run(common + ["--init=IndInit", "--inv=IndInv", "--length=1", module + ".tla"], cwd=d, timeout=900 if tier == "quick" else 3000)
        p0 = run(common + ["--init=Init", "--inv=IndInv", "--length=0", module + ".tla"], cwd=d, timeout=600)
        out["inductive_step"] = ok in p1.stdout
        out["base_case"] = ok in p0.stdout
        tail = p1.stdout + p0.stdout
        if consequence:
            p2 = run(common + ["--init=IndInit", "--inv=" + consequence, "--length=0", module + ".tla"], cwd=d, timeout=600)
            out["implies_" + consequence] = ok in p2.stdout
            tail += p2.stdout
        log("  %s.tla (Apalache, %s): %s" % (module, consts, {k: v for k, v in out.items() if isinstance(v, bool)}))
        if not all(v for v in out.values() if isinstance(v, bool)):
            report.notes.append("Apalache did not establish IndInv for %s.tla: %s" % (module, tail[-600:]))
    except (subprocess.TimeoutExpired, FileNotFoundError, OSError) as e:
        out["error"] = str(e)[:200]
        report.notes.append("Apalache stage skipped: %s" % out["error"])
    report.coverage.setdefault("apalache_inductive_invariants", []).append(out)


def run_c02(prop, tier, seed, report, scratch):
    """C02: the family-L pipeline, plus an Apalache inductiveness check of the sets-only abstraction CoreInd.tla."""
    run_l(plans_core)(prop, tier, seed, report, scratch)
    n, nr = (5, 2) if tier == "quick" else (7, 3)
    apalache_stage(report, scratch, tier, "CoreInd", {"N": n, "NR": nr})


def run_c04(prop, tier, seed, report, scratch):
    """C04: the family-L pipeline, plus an Apalache inductiveness check of the clock rule (ClockInd.tla): the time Append
    computes dominates every entry of the log, for every DAG and clock assignment satisfying the invariant - including logs
    read back from the store (clock 0), refused appends (tick kept) and identity changes."""
    run_l(plans_c04)(prop, tier, seed, report, scratch)
    n, nr, mt = (5, 2, 7) if tier == "quick" else (6, 3, 8)
    apalache_stage(report, scratch, tier, "ClockInd", {"N": n, "NR": nr, "MaxT": mt}, consequence="C04_NextAppendDominates")


def run_c09(prop, tier, seed, report, scratch):
    """C09 under the default ordering, and once more with logs configured with another ordering (LogOptions.SortFn given to
    the loaders the way the log was configured, FetchOptions.SortFn left unset): the reloaded views must still be equal."""
    fam_f.run_family_f(prop, tier, seed, report, scratch)
    cov = dict(report.coverage)
    sub = type(report)(prop, tier, seed, report.level)
    sub.known = report.known
    os.makedirs(os.path.join(scratch, "fww"), exist_ok=True)
    fam_f.run_family_f(prop, tier, seed, sub, os.path.join(scratch, "fww"), fn="FWW")
    for desc, payload in sub.violations:
        desc = dict(desc, ordering="FWW")
        report.add_violation(desc, payload)
    for d in sub.drift:
        report.add_drift(d + " [FWW]")
    for k in ("states", "transitions", "traces_validated_against_impl", "records_validated", "instances"):
        report.coverage[k] = (cov.get(k) or 0) + (sub.coverage.get(k) or 0)
    report.coverage["orderings"] = ["LWW", "FWW"]


CHECKS = {
    "C01": dict(level="model_checking", run=run_l(plans_core)),
    "C02": dict(level="model_checking", run=run_c02),
    "C03": dict(level="model_checking", run=run_l(plans_core)),
    "C05": dict(level="model_checking", run=run_l(plans_core)),
    "C04": dict(level="model_checking", run=run_c04),
    "C06": dict(level="model_checking", run=run_l(plans_c06)),
    "C07": dict(level="exploration", run=fam_d.run_family_d),
    "C08": dict(level="exploration", run=fam_d.run_family_d),
    "C12": dict(level="exploration", run=fam_d.run_family_d),
    "C09": dict(level="model_checking", run=run_c09),
    "C10": dict(level="model_checking", run=fam_f.run_family_f),
    "C11": dict(level="model_checking", run=fam_f.run_family_f),
    "C13": dict(level="model_checking", run=fam_k.run_family_k),
    "C14": dict(level="model_checking", run=fam_k.run_family_k),
    "C15": dict(level="model_checking", run=run_l(plans_c15)),
    "C17": dict(level="fault_enumeration", run=run_l(plans_c17)),
    "C18": dict(level="model_checking", run=run_c18),
    "C19": dict(level="model_checking", run=fam_misc.run_c19),
    "C20": dict(level="model_checking", run=fam_misc.run_c20),
    "C16": dict(level="model_checking", run=run_l(plans_c16)),
}


def replay(prop, path, scratch, report):
    """Re-executes the case of a replay file on the current tree and validates it again."""
    payload = json.load(open(path))
    fam = payload.get("family")
    if fam == "S":
        fam_f.replay_payload(prop, payload, scratch, report)
        return report.finish()
    if fam == "K":
        fam_k.replay_payload(prop, payload, scratch, report)
        return report.finish()
    if fam == "D":
        fam_d.replay_payload(prop, payload, scratch, report)
        return report.finish()
    if fam != "L":
        # tables (sorting) and keystore histories are cheap: the whole quick check is the replay
        CHECKS[prop]["run"](prop, "quick", report.seed, report, scratch)
        return report.finish()
    binpath = build_harness(scratch)
    specdir = fam_l.stage_spec(scratch)
    script = payload.get("script")
    if script is None:
        raise Inconclusive("replay file has no script")
    trace = fam_l.replay(binpath, scratch, "replay", payload["cfg"], [json.dumps(script)], "all")
    minv, mprop, tinv, tprop = fam_l.OPS[prop]
    n, viols, bad = fam_l.validate_traces(specdir, "Trace_IpfsLog", trace, fam_l.H_INV + tinv, tprop, scratch, nshards=1)
    if bad:
        raise Inconclusive(bad)
    fam_l.classify(report, prop, viols, payload["cfg"], {1: script})
    report.coverage.update({"states": n * 2, "transitions": n, "traces_validated_against_impl": n,
                            "evaluations": max(1, n), "distinct_nontrivial": 2, "rule": "replay of one history",
                            "samples": [{"history": script}]})
    return report.finish()
