#!/usr/bin/env python3
"""Regenerates /verif/MANIFEST.json from tools/manifest_meta.py (one place for level texts)."""
import json
import os
import sys

sys.path.insert(0, os.path.dirname(os.path.abspath(__file__)))
import manifest_meta as mm  # noqa: E402

VERIF = os.path.dirname(os.path.dirname(os.path.abspath(__file__)))
props = [json.loads(l) for l in open(os.path.join(VERIF, "properties.jsonl"))]
checks = []
for p in props:
    pid = p["id"]
    if pid not in mm.CLAIMED:
        continue
    c = mm.CLAIMED[pid]
    checks.append({
        "property_id": pid,
        "quick_cmd": "./check %s --tier quick" % pid,
        "thorough_cmd": "./check %s --tier thorough" % pid,
        "evidence_file": "/verif/evidence/%s.json" % pid,
        "replay_cmd_template": "./check %s --replay {path}" % pid,
        "engine": c.get("engine", "tlc+go-harness"),
        "level_claimed": {"category": c["level"], "text": c["text"], "design_ref": c.get("ref", "DESIGN.md section 6")},
        "level_note": c["note"],
        "technique": c["technique"],
    })
manifest = {
    "version": 1,
    "setup_cmd": "./setup.sh",
    "hooks": {
        "guard": "verif",
        "enable": "go build -tags verif (the harness module resolves berty.tech/go-ipfs-log through `replace => /repo`, so it is always built from /repo's working tree)",
        "baseline_off_cmd": "cd /repo && GOFLAGS=-mod=mod GOPROXY=off GOSUMDB=off go test -vet=off -count=1 -timeout 25m ./...",
        "source_commits": mm.HOOK_COMMITS,
        "add_only": True,
    },
    "engines": [{
        "name": "tlc+go-harness", "path": "/verif/check",
        "serves_properties": sorted(mm.CLAIMED),
        "kind_free_text": "explicit TLA+ specifications (/verif/spec) model-checked with TLC; a Go conformance harness (/verif/harness) replays TLC-generated behaviours on the real code over a controllable fake block store and records observed traces, which TLC validates against the same specifications (Layer P property predicates, Layer M action conformance)",
    }],
    "checks": checks,
    "not_applicable": [{"property_id": p["id"], "reason": mm.NOT_APPLICABLE.get(p["id"], mm.DEFAULT_NA)}
                       for p in props if p["id"] not in mm.CLAIMED],
    "notes": mm.NOTES,
}
json.dump(manifest, open(os.path.join(VERIF, "MANIFEST.json"), "w"), indent=1)
print("MANIFEST.json: %d checks, %d not applicable" % (len(checks), len(manifest["not_applicable"])))
