"""Family S (store & loaders): Fetcher.tla explored by TLC per loader instance over stored logs
("shapes") that IpfsLog.tla histories produce on the real code; TLC-chosen schedules are imposed
on the real fetcher by the fetch scheduler; the observed steps and outcomes are validated against
Trace_Fetcher.tla.  Decides C09, C10, C11."""
import itertools
import json
import os
import random
import time
from concurrent.futures import ThreadPoolExecutor

import fam_l
from vlib import (Inconclusive, NCPU, build_harness, log, run, run_tlc, stage_spec, tla_value, validate_traces,
                  write_mc)

M_INV = ["M_Init", "M_Launch", "M_Process", "M_Chain", "M_Loader", "M_Progress", "M_LoadedHeads"]
P_OPS = {
    "C12": ["C11_Terminates", "C11_NoDupResult", "C11_WithinReach", "C11_ExactReach", "C11_FaultsAreSkipped"],
    "C09": ["C09_ReloadEqual"],
    "C10": ["C10_Count", "C10_Content"],
    "C11": ["C11_Terminates", "C11_NoDupResult", "C11_NoDupRequest", "C11_NoExcludedRequest", "C11_ConcurrencyBound",
            "C11_WithinReach", "C11_ExactReach", "C11_FaultsAreSkipped", "C11_WithinTimeout"],
}
MODEL_INV = {
    "C12": ["C11_NoDupResult", "C11_OnlyRetrievable", "C11_WithinReach", "C11_ExactReach"],
    "C09": ["C09_UnboundedExact", "C11_NoDupResult"],
    "C10": ["C10_Exact"],
    "C11": ["C11_NoDupResult", "C11_NoDupRequest", "C11_NoExcludedRequest", "C11_OnlyRetrievable",
            "C11_WithinReach", "C11_ExactReach", "C11_Quiescent"],
}
MODEL_PROP = {"C09": [], "C10": [], "C11": ["C11_Terminates"], "C12": []}


def shape_scripts(specdir, tier, seed, fn="LWW"):
    """Histories of IpfsLog.tla (TLC -simulate) whose final stores are the shapes to load."""
    q = tier == "quick"
    # publications happen in the middle of the histories too (a manifest may have been written before later merges)
    consts = fam_l.base_consts(NR=3, Writer0=[1, 2, 3], Fn=fn, MaxE=6 if q else 7, MaxOps=12 if q else 14, PCs={1, 2, 4},
                               PubOn={1, 2, 3}, Payloads={"p", "empty"})
    res = fam_l.explore(specdir, "shapes", consts, [], [], simulate=(12 if q else 50, 12 if q else 14), seed=seed)
    if res.crashed:
        raise Inconclusive("TLC failed generating shapes:\n" + res.out[-2000:])
    scripts = fam_l.maximal_only(res.hist_lines())
    # keep the longest histories only (they end in the biggest stores) and cap the number
    scripts.sort(key=lambda s: (-len(json.loads(s)), s))
    keep = scripts[: (10 if q else 30)]
    # two hand-picked classics: a linear chain with skip references and a wide fork
    keep.append(json.dumps([["A", 1, 4]] * 6))
    keep.append(json.dumps([["A", 1, 1], ["A", 2, 1], ["A", 3, 1], ["J", 1, 2], ["J", 1, 3], ["A", 1, 2], ["A", 2, 1], ["J", 1, 2]]))
    # zero-length payloads in the middle of a chain and at a head of a merged log
    keep.append(json.dumps([["A", 1, 1], ["A", 1, 1, "empty"], ["A", 1, 1], ["A", 2, 1, "empty"], ["J", 1, 2]]))
    # published, then merged with a replica that is not ahead in Lamport time, then published again (by the shape builder)
    keep.append(json.dumps([["A", 1, 1], ["A", 1, 1], ["A", 1, 1], ["A", 2, 1], ["P", 1], ["J", 1, 2]]))
    return consts, keep


def eff_length(kind, n, k):
    if n < 0:
        return -1
    return max(n, k) if kind == "entry" else n


def make_instances(prop, tier, seed, shapes, fn):
    """The loader instances of the property's quantifier over the given shapes."""
    q = tier == "quick"
    rnd = random.Random(seed)
    insts = []

    def add(shape, rep, kind, n, conc, faults=None, excluded=(), timeout=False, start=None, tag="", rt=0, custom=False, prime=0):
        info = shape["reps"][rep - 1]
        heads = list(info["heads"])
        if not heads:
            return
        if kind == "entryhash":
            st = [heads[0]] if start is None else start
            k = 1
        elif kind == "entry":
            st = heads if start is None else start
            k = len(st)
        else:
            st = heads if start is None else start
            k = 0
        N = len(shape["D"])
        flt = ["ok"] * N
        for i, kd in (faults or {}).items():
            # (for the model a malformed block is undecodable, and an error is an error whatever it wraps)
            flt[int(i) - 1] = "garbage" if kd.startswith("malformed") else ("error" if kd == "ctxerror" else kd)
        insts.append({
            "name": "i%d" % (len(insts) + 1), "shape": shape["shape"], "replica": rep, "Kind": kind, "N": n,
            "Length": eff_length(kind, n, k), "Conc": 32 if kind == "json" else conc, "K": k, "Start": st,
            "Fault": flt, "faults": {str(i): kd for i, kd in (faults or {}).items()},
            "Excluded": sorted(excluded), "Timeout": timeout, "D": shape["D"], "Fn": fn,
            "Orig": {"ents": info["ents"], "heads": heads, "values": info["values"], "lid": info["lid"]},
            "tag": tag, "RealTimeout": rt, "CustomManifest": custom, "PrimeFrom": prime,
        })

    for shape in shapes:
        # the replica holding most entries
        rep = max(range(1, len(shape["reps"]) + 1), key=lambda r: len(shape["reps"][r - 1]["ents"]))
        info = shape["reps"][rep - 1]
        size = len(info["ents"])
        if size == 0:
            continue
        if prop == "C09":
            for kind in ("mh", "json", "entry", "entryhash"):
                if kind == "entryhash" and len(info["heads"]) != 1:
                    continue
                for conc in ((1, 2) if q else (1, 2, 3)):
                    if kind == "json" and conc > 1:
                        continue
                    add(shape, rep, kind, -1, conc)
                # the caller's LogOptions value has been used before, for a load of an older state of the log
                oldest = info["values"][0] if info["values"] else 0
                if kind != "mh" and oldest and oldest not in info["heads"]:
                    add(shape, rep, kind, -1, 2, tag="reusedoptions", prime=oldest)
        elif prop == "C10":
            for kind in ("mh", "json", "entry", "entryhash"):
                ns = range(0, size + 2)
                for n in ns:
                    for conc in ((2, 3) if q else (1, 2, 3, 4)):
                        if kind == "json" and conc != 2:
                            continue
                        add(shape, rep, kind, n, conc)
                    # supplied entries that are not the heads of one log: a head plus an entry of its own past (a third party
                    # rebuilding from the announced heads of two replicas, one of them stale)
                    vals = list(info["values"])
                    if kind == "entry" and len(vals) >= 3:
                        for anc in {vals[len(vals) // 2], vals[0]} - set(info["heads"]):
                            for conc in (1, 2):
                                add(shape, rep, "entry", n, conc, start=[info["heads"][0], anc], tag="stalehead")
                    # a head list in another order than this replica's own (a caller-assembled JSON head list, a manifest
                    # written by a replica with another ordering): the outcome must not depend on it
                    hs = list(info["heads"])
                    if len(hs) >= 2 and kind in ("mh", "json"):
                        add(shape, rep, kind, n, 2, start=hs[::-1], tag="headorder", custom=(kind == "mh"))
                        if len(hs) >= 3:
                            add(shape, rep, kind, n, 2, start=hs[1:] + hs[:1], tag="headorder", custom=(kind == "mh"))
        elif prop == "C12":
            # blocks that are well-formed CBOR but not decodable entries, planted at every position
            ids = sorted(info["ents"])
            for k, i in enumerate(ids if not q else ids[:4]):
                kd = "malformed%d" % ((k + seed) % 6)
                for kind in ("mh", "entryhash", "fetch", "json"):
                    add(shape, rep, kind, -1, 2, faults={i: kd}, tag="malformed")
                add(shape, rep, "mh", 3, 2, faults={i: kd}, tag="malformed+limit")
                add(shape, rep, "mh", -1, 1, faults={i: kd}, tag="malformed+conc1")
                add(shape, rep, "fetch", -1, 1, faults={i: kd}, tag="malformed+conc1")
        elif prop == "C11":
            ids = sorted(info["ents"])
            kinds = ["missing", "error", "garbage", "ctxerror"]
            singles = ids if not q else rnd.sample(ids, min(3, len(ids)))
            for i in singles:
                for kd in (kinds if not q else [kinds[(i + seed) % 4]]):
                    for conc in ((2,) if q else (1, 2, 3)):
                        add(shape, rep, "fetch", -1, conc, faults={i: kd}, tag="fault1")
                        add(shape, rep, "mh", -1, conc, faults={i: kd}, tag="fault1")
                    # one slot only: a faulty block must give its slot back, or nothing else is ever fetched
                    add(shape, rep, "fetch", -1, 1, faults={i: kd}, tag="fault1c1")
                    add(shape, rep, "mh", -1, 1, faults={i: kd}, tag="fault1c1")
                    # the loaders that derive the heads from what they could fetch (islands below a gap keep their tops)
                    add(shape, rep, "entry", -1, 2, faults={i: kd}, tag="fault1")
                    add(shape, rep, "json", -1, 2, faults={i: kd}, tag="fault1")
            if not q:
                for a, b in itertools.combinations(ids, 2):
                    if rnd.random() < 0.4:
                        add(shape, rep, "fetch", -1, 2, faults={a: rnd.choice(kinds), b: rnd.choice(kinds)}, tag="fault2")
            # a slow block with a deadline, a deadline on an intact store
            add(shape, rep, "fetch", -1, 2, faults={rnd.choice(ids): "slow"}, timeout=True, tag="slow")
            add(shape, rep, "mh", -1, 2, faults={rnd.choice(ids): "slow"}, timeout=True, tag="slow")
            add(shape, rep, "fetch", -1, 2, timeout=True, tag="deadline")
            # excluded hashes, duplicate and unknown starting hashes
            add(shape, rep, "fetch", -1, 2, excluded={rnd.choice(ids)}, tag="excluded")
            add(shape, rep, "mh", -1, 2, excluded={rnd.choice(ids)}, tag="excluded")
            heads = list(info["heads"])
            add(shape, rep, "fetch", -1, 2, start=heads + heads, tag="dupstart")
            add(shape, rep, "fetch", 2, 2, faults={rnd.choice(ids): "missing"}, tag="bounded+fault")
            add(shape, rep, "fetch", -1, 1, tag="plain")
            if shape["shape"] <= 2:
                add(shape, rep, "fetch", -1, 2, faults={rnd.choice(ids): "slow"}, rt=300, tag="realtime")
                add(shape, rep, "mh", -1, 2, faults={rnd.choice(ids): "slow"}, rt=300, tag="realtime")
            add(shape, rep, "entry", -1, 2, faults={heads[0]: "missing"}, tag="entry+faultyhead")
    return insts


def tla_instance(i):
    return {"name": i["name"], "D": i["D"], "Fault": i["Fault"], "Start": i["Start"], "Length": i["Length"],
            "Conc": i["Conc"], "Excluded": set(i["Excluded"]), "Timeout": i["Timeout"], "Kind": i["Kind"],
            "K": i["K"], "N": i["N"]}


def run_family_f(prop, tier, seed, report, scratch, fn="LWW"):
    binpath = build_harness(scratch)
    specdir = stage_spec(scratch)
    q = tier == "quick"
    consts, scripts = shape_scripts(specdir, tier, seed, fn)
    hcfg = fam_l.harness_cfg(consts, seed)
    cfgp = os.path.join(scratch, "f.cfg.json")
    scp = os.path.join(scratch, "f.shapes.ndjson")
    json.dump(hcfg, open(cfgp, "w"))
    open(scp, "w").write("\n".join(scripts) + "\n")
    shp = os.path.join(scratch, "f.shapes.out")
    p = run([binpath, "fprep", "-cfg", cfgp, "-scripts", scp, "-out", shp], timeout=600)
    if p.returncode != 0:
        raise Inconclusive("fprep failed:\n" + p.stdout[-3000:])
    shapes = [json.loads(l) for l in open(shp)]
    insts = make_instances(prop, tier, seed, shapes, fn)
    if not insts:
        raise Inconclusive("no loader instance generated")
    log("  %d shapes (%s entries), %d loader instances" % (len(shapes), [len(s["D"]) for s in shapes], len(insts)))

    # (a) design level + schedules: Fetcher.tla over all instances, in chunks (one TLC run per chunk)
    chunk = 40
    chunks = [insts[i:i + chunk] for i in range(0, len(insts), chunk)]
    states = transitions = 0
    scheds = {}
    model_viol = []
    t0 = time.time()

    def tlc_chunk(ci):
        name = "F%03d" % ci
        extra = "MCi_Instances == " + tla_value([tla_instance(i) for i in chunks[ci]])
        # constants through definitions
        lines = ["---- MODULE %s ----" % name, "EXTENDS Fetcher", extra, "===="]
        open(os.path.join(specdir, name + ".tla"), "w").write("\n".join(lines) + "\n")
        cfg = ["SPECIFICATION Spec", "CHECK_DEADLOCK FALSE", "CONSTANTS", " Instances <- MCi_Instances",
               " ExportAll = FALSE", "VIEW View", "CONSTRAINT Export",
               "INVARIANTS TypeOK " + " ".join(MODEL_INV[prop])]
        if MODEL_PROP[prop]:
            cfg.append("PROPERTIES " + " ".join(MODEL_PROP[prop]))
        open(os.path.join(specdir, name + ".cfg"), "w").write("\n".join(cfg) + "\n")
        return run_tlc(specdir, name, workers=4, xmx="6g", timeout=2400)

    with ThreadPoolExecutor(max_workers=4) as ex:
        results = list(ex.map(tlc_chunk, range(len(chunks))))
    for ci, res in enumerate(results):
        if res.crashed and not res.violated and not res.temporal:
            raise Inconclusive("TLC failed on Fetcher.tla chunk %d:\n%s" % (ci, res.out[-3000:]))
        if res.violated or res.temporal:
            model_viol.append({"chunk": ci, "operators": res.violated or ["temporal"]})
        states += res.distinct
        transitions += res.generated
        for line in res.hist_lines():
            h = json.loads(line)
            scheds.setdefault(h["inst"], []).append(h["sched"])
    if model_viol:
        report.coverage["model_only_counterexamples"] = model_viol
        report.notes.append("model-level counterexample(s) in Fetcher.tla: %s" % model_viol[:3])
    log("  Fetcher.tla: %d states / %d transitions over %d instances in %.1fs; %d finished schedules" %
        (states, transitions, len(insts), time.time() - t0, sum(len(v) for v in scheds.values())))

    # (b) jobs: per instance the default policy plus sampled TLC schedules
    rnd = random.Random(seed)
    per = (12 if prop == "C10" else 8) if q else 30
    jobs = []
    for i in insts:
        jobs.append({"inst": i["name"], "sched": []})
        if i["RealTimeout"]:
            continue
        # three more deterministic policies: largest id first, fetches before processing, both
        jobs.append({"inst": i["name"], "sched": [["DESC"]]})
        jobs.append({"inst": i["name"], "sched": [["GATESFIRST"]]})
        jobs.append({"inst": i["name"], "sched": [["GATESFIRST"], ["DESC"]]})
        ss = scheds.get(i["name"], [])
        for s in (rnd.sample(ss, per) if len(ss) > per else ss):
            jobs.append({"inst": i["name"], "sched": s})
    instp = os.path.join(scratch, "f.instances.json")
    json.dump([{k: v for k, v in i.items() if k not in ("D", "Orig", "Fault")} for i in insts], open(instp, "w"))
    nproc = min(NCPU, max(1, len(jobs) // 20))
    shards = [jobs[k::nproc] for k in range(nproc)]

    def frun(k):
        jp = os.path.join(scratch, "f.jobs.%d" % k)
        op = os.path.join(scratch, "f.out.%d" % k)
        with open(jp, "w") as f:
            for j in shards[k]:
                f.write(json.dumps(j) + "\n")
        pr = run([binpath, "frun", "-cfg", cfgp, "-scripts", scp, "-instances", instp, "-jobs", jp, "-out", op], timeout=2400)
        return k, pr, op

    t1 = time.time()
    trace = os.path.join(scratch, "f.trace.ndjson")
    nfollowed = nruns = 0
    with ThreadPoolExecutor(max_workers=nproc) as ex, open(trace, "w") as out:
        header = {"k": "hdr", "instances": {i["name"]: {k: v for k, v in i.items() if k not in ("faults", "tag", "shape", "replica")}
                                            for i in insts}}
        out.write(json.dumps(header) + "\n")
        for k, pr, op in ex.map(frun, range(nproc)):
            if pr.returncode != 0:
                if "panic:" in pr.stdout and "goroutine" in pr.stdout:
                    frames = fam_l._lib_frames(pr.stdout)
                    lib = [f for f in frames if f.startswith("berty.tech/go-ipfs-log")]
                    if lib:
                        report.add_violation({"operator": prop + "_NoCrash", "crash": True, "frame": lib[0]},
                                             {"family": "S", "stack": pr.stdout[-2500:], "jobs": shards[k][:50]})
                        continue
                raise Inconclusive("frun failed:\n" + pr.stdout[-3000:])
            last = pr.stdout.strip().splitlines()[-1]
            try:
                parts = dict(x.split("=") for x in last.split()[1:])
                nruns += int(parts["runs"])
                nfollowed += int(parts["followed"])
            except Exception:
                pass
            with open(op) as f:
                for line in f:
                    out.write(line)
    log("  frun: %d runs (%d followed their TLC schedule exactly) in %.1fs" % (nruns, nfollowed, time.time() - t1))

    # (c) validation
    t2 = time.time()
    n, viols, bad = validate_traces(specdir, "Trace_Fetcher", trace, ["H_WellFormed"] + P_OPS[prop] + M_INV, [], scratch,
                                    xmx="4g")
    if bad:
        raise Inconclusive(bad)
    log("  validated %d records in %.1fs, %d operator failures" % (n, time.time() - t2, len(viols)))
    byname = {i["name"]: i for i in insts}
    for op, rec in viols:
        if op.startswith("H_"):
            raise Inconclusive("fetch trace not well formed: " + json.dumps(rec)[:400])
        i = byname.get(rec.get("inst")) if rec else None
        if op.startswith("M_"):
            report.add_drift("%s (%s, kind %s)" % (op, rec.get("kind", rec.get("k")) if rec else "?", i["Kind"] if i else "?"))
            continue
        desc = {"operator": op}
        if i:
            size = len(i["Orig"]["ents"])
            desc.update({"loader": i["Kind"], "tag": i["tag"],
                         "n": "none" if i["N"] < 0 else ("zero" if i["N"] == 0 else ("lt_size" if i["N"] < size else
                                                                                   ("eq_size" if i["N"] == size else "gt_size"))),
                         "faults": sorted(set(i["faults"].values()))})
        report.add_violation(desc, {"family": "S", "record": rec,
                                    "instance": dict(i or {}),
                                    "shape_script": json.loads(scripts[i["shape"] - 1]) if i else None, "cfg": hcfg})
    rs = random.Random(seed)
    samples = []
    for i in rs.sample(insts, min(3, len(insts))):
        samples.append({"instance": {k: i[k] for k in ("name", "Kind", "N", "Length", "Conc", "K", "Start", "faults", "Excluded", "Timeout", "tag")},
                        "shape_history": json.loads(scripts[i["shape"] - 1]),
                        "a_schedule": (scheds.get(i["name"]) or [[]])[0]})
    report.coverage.update({
        "states": states, "transitions": transitions, "traces_validated_against_impl": nruns,
        "records_validated": n, "instances": len(insts), "shapes": len(shapes),
        "runs_following_tlc_schedule_exactly": nfollowed,
        "exhaustive": False, "layerP_operators": P_OPS[prop], "layerM_operators": M_INV,
        "model_operators": MODEL_INV[prop] + MODEL_PROP[prop], "samples": samples,
    })
    report.assumptions += [
        "TLC explores every interleaving of the fetcher's critical sections per instance (exhaustive at design level); on the "
        "real code FetchDone and Process steps are forced by the scheduler, main-loop wake-ups run freely "
        "(schedules that need a delayed wake-up are exercised only by chance)",
        "the fake store models missing / failing / undecodable / never-answering blocks; the deadline is fired by "
        "cancelling the parent context at a scheduler-chosen point",
    ]


def replay_payload(prop, payload, scratch, report):
    """Re-runs the instance of a replay file under its recorded schedule on the current tree and validates it again."""
    binpath = build_harness(scratch)
    specdir = stage_spec(scratch)
    inst = dict(payload["instance"])
    inst["shape"] = 1
    rec = payload.get("record") or {}
    cfgp = os.path.join(scratch, "r.cfg.json")
    scp = os.path.join(scratch, "r.shapes.ndjson")
    json.dump(payload["cfg"], open(cfgp, "w"))
    open(scp, "w").write(json.dumps(payload["shape_script"]) + "\n")
    instp = os.path.join(scratch, "r.instances.json")
    json.dump([{k: v for k, v in inst.items() if k not in ("D", "Orig", "Fault")}], open(instp, "w"))
    jp = os.path.join(scratch, "r.jobs")
    open(jp, "w").write(json.dumps({"inst": inst["name"], "sched": rec.get("sched") or []}) + "\n")
    op = os.path.join(scratch, "r.out")
    pr = run([binpath, "frun", "-cfg", cfgp, "-scripts", scp, "-instances", instp, "-jobs", jp, "-out", op], timeout=600)
    if pr.returncode != 0:
        raise Inconclusive("frun failed:\n" + pr.stdout[-2000:])
    trace = os.path.join(scratch, "r.trace.ndjson")
    with open(trace, "w") as out:
        out.write(json.dumps({"k": "hdr", "instances": {inst["name"]: {k: v for k, v in inst.items()
                                                                    if k not in ("faults", "tag", "shape", "replica")}}}) + "\n")
        out.write(open(op).read())
    n, viols, bad = validate_traces(specdir, "Trace_Fetcher", trace, ["H_WellFormed"] + P_OPS[prop], [], scratch, nshards=1)
    if bad:
        raise Inconclusive(bad)
    for opn, r in viols:
        if opn.startswith("H_") or opn.startswith("M_"):
            continue
        report.add_violation({"operator": opn, "loader": inst["Kind"]}, dict(payload, record=r))
    report.coverage.update({"states": 2 * n, "transitions": n, "traces_validated_against_impl": 1, "samples": [{"instance": inst["name"]}]})
