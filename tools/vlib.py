"""Shared plumbing of the /verif checks: scratch directories, building the Go
harness from /repo's working tree, running TLC, sharded trace validation,
known-findings filtering, evidence files and the VIOLATION / KNOWN-FINDING /
MODEL-DRIFT output lines.  Standard library only."""
import hashlib
import json
import os
import re
import shutil
import subprocess
import sys
import tempfile
import time
from concurrent.futures import ThreadPoolExecutor

VERIF = os.path.dirname(os.path.dirname(os.path.abspath(__file__)))
REPO = os.environ.get("VERIF_REPO", "/repo")
SPEC = os.path.join(VERIF, "spec")
HARNESS = os.path.join(VERIF, "harness")
EVIDENCE = os.environ.get("VERIF_EVIDENCE_DIR") or os.path.join(VERIF, "evidence")
REPLAYS = os.path.join(EVIDENCE, "replays")
TLA_CP = "/opt/veriftools/tla/tla2tools.jar:/opt/veriftools/tla/CommunityModules-deps.jar"
NCPU = os.cpu_count() or 4

GOENV = dict(os.environ, GOFLAGS="-mod=mod", GOPROXY="off", GOSUMDB="off", GOTOOLCHAIN="local")


class Inconclusive(Exception):
    """The check could not decide (build failure, TLC crash, dead driver): exit 2."""


def log(*a):
    print(*a, file=sys.stderr, flush=True)


class Scratch:
    """A run-time scratch directory outside /repo and /verif, removed on exit."""

    def __init__(self, keep=False):
        self.keep = keep
        self.path = None

    def __enter__(self):
        base = os.environ.get("VERIF_SCRATCH_BASE") or tempfile.gettempdir()
        self.path = tempfile.mkdtemp(prefix="verif-", dir=base)
        return self.path

    def __exit__(self, *exc):
        if self.keep:
            log("scratch kept:", self.path)
        else:
            shutil.rmtree(self.path, ignore_errors=True)
        return False


def run(cmd, cwd=None, env=None, timeout=None, check=False, stdout=subprocess.PIPE):
    p = subprocess.run(cmd, cwd=cwd, env=env, timeout=timeout, stdout=stdout,
                       stderr=subprocess.STDOUT, text=True, errors="replace")
    if check and p.returncode != 0:
        raise Inconclusive("command failed (%d): %s\n%s" % (p.returncode, " ".join(cmd), (p.stdout or "")[-4000:]))
    return p


# ---------------------------------------------------------------------------
# Go harness

def build_harness(scratch, race=False, tags="verif"):
    """Builds cmd/verif against /repo's *current working tree* (replace directive)."""
    src = os.path.join(scratch, "harness")
    if not os.path.isdir(src):
        shutil.copytree(HARNESS, src)
        # the harness resolves berty.tech/go-ipfs-log through `replace => REPO`
        gomod = open(os.path.join(src, "go.mod")).read()
        gomod = re.sub(r"replace berty.tech/go-ipfs-log => .*", "replace berty.tech/go-ipfs-log => " + REPO, gomod)
        open(os.path.join(src, "go.mod"), "w").write(gomod)
        # module sums: the repository's own go.sum covers every dependency the harness uses
        with open(os.path.join(src, "go.sum"), "a") as out:
            out.write(open(os.path.join(REPO, "go.sum")).read())
    out = os.path.join(scratch, "verif-race" if race else "verif-bin")
    cmd = ["go", "build", "-tags", tags]
    if race:
        cmd.append("-race")
    cmd += ["-o", out, "./cmd/verif"]
    t0 = time.time()
    p = run(cmd, cwd=src, env=GOENV, timeout=1500)
    if p.returncode != 0:
        raise Inconclusive("harness build failed:\n" + p.stdout[-6000:])
    log("built harness%s in %.1fs" % (" (-race)" if race else "", time.time() - t0))
    return out


# ---------------------------------------------------------------------------
# TLC

def tlc_cmd(cfg, module, metadir, workers=4, xmx="4g", extra=()):
    # TLC leaves a tlc-<n> directory in java.io.tmpdir per run: keep those inside the scratch directory
    tmpdir = os.path.dirname(os.path.abspath(metadir))
    return ["java", "-Djava.io.tmpdir=" + tmpdir, "-XX:+UseParallelGC", "-XX:ParallelGCThreads=%d" % max(2, min(workers, 8)), "-Xmx" + xmx, "-Xss64m", "-cp", TLA_CP, "tlc2.TLC",
            "-workers", str(workers), "-metadir", metadir, "-noGenerateSpecTE",
            "-config", cfg, *extra, module]


def stage_spec(scratch, name="spec"):
    d = os.path.join(scratch, name)
    if not os.path.isdir(d):
        os.makedirs(d)
        for f in os.listdir(SPEC):
            if f.endswith(".tla"):
                shutil.copy(os.path.join(SPEC, f), d)
    return d


def tla_value(v):
    """Python value -> TLA+ expression text."""
    if isinstance(v, bool):
        return "TRUE" if v else "FALSE"
    if isinstance(v, int):
        return str(v) if v >= 0 else "(0 - %d)" % (-v)
    if isinstance(v, str):
        return json.dumps(v)
    if isinstance(v, (list, tuple)):
        return "<<" + ", ".join(tla_value(x) for x in v) + ">>"
    if isinstance(v, (set, frozenset)):
        return "{" + ", ".join(tla_value(x) for x in sorted(v, key=repr)) + "}"
    if isinstance(v, dict):
        return "[" + ", ".join("%s |-> %s" % (k, tla_value(x)) for k, x in v.items()) + "]"
    raise TypeError(v)


def write_mc(specdir, base, consts, invariants=(), properties=(), view=None, constraint=None,
             spec="Spec", postcondition=None, name="MC", extra_defs=""):
    """Writes MC.tla / MC.cfg instantiating `base` with constants (all through definitions, so
    negative numbers, sequences and sets are no problem for the cfg parser)."""
    lines = ["---- MODULE %s ----" % name, "EXTENDS " + base]
    cfg = ["SPECIFICATION " + spec, "CHECK_DEADLOCK FALSE", "CONSTANTS"]
    for k, v in consts.items():
        lines.append("MCc_%s == %s" % (k, tla_value(v)))
        cfg.append(" %s <- MCc_%s" % (k, k))
    if extra_defs:
        lines.append(extra_defs)
    lines.append("====")
    if view:
        cfg.append("VIEW " + view)
    if constraint:
        cfg.append("CONSTRAINT " + constraint)
    if invariants:
        cfg.append("INVARIANTS " + " ".join(invariants))
    if properties:
        cfg.append("PROPERTIES " + " ".join(properties))
    if postcondition:
        cfg.append("POSTCONDITION " + postcondition)
    open(os.path.join(specdir, name + ".tla"), "w").write("\n".join(lines) + "\n")
    open(os.path.join(specdir, name + ".cfg"), "w").write("\n".join(cfg) + "\n")
    return name


RE_SIM = re.compile(r"The number of states generated: (\d+)")
RE_STATES = re.compile(r"(\d+) states generated, (\d+) distinct states found, (\d+) states left")
RE_INV = re.compile(r"Error: Invariant (\w+) is violated")
RE_ACT = re.compile(r"Error: Action property (\w+) is violated")
RE_TEMPORAL = re.compile(r"Error: Temporal properties were violated")


class TlcResult:
    def __init__(self, out, rc):
        self.out = out
        self.rc = rc
        m = None
        for m in RE_STATES.finditer(out):
            pass
        self.generated = int(m.group(1)) if m else 0
        self.distinct = int(m.group(2)) if m else 0
        self.left = int(m.group(3)) if m else -1
        ms = RE_SIM.search(out)
        if ms and not m:
            self.generated = self.distinct = int(ms.group(1))
            m = ms
        self.finished = "Model checking completed" in out or "Finished in" in out
        self.violated = RE_INV.findall(out) + RE_ACT.findall(out)
        self.temporal = bool(RE_TEMPORAL.search(out))
        self.deadlock = "Deadlock reached" in out
        self.postfail = "Postcondition" in out and "violated" in out
        # errors that are neither property violations nor clean completion
        self.crashed = (not m) or ("TLC threw an unexpected exception" in out) or \
            ("The error occurred when TLC was evaluating" in out) or ("Error: " in out and not self.violated and not self.temporal
                                   and not self.deadlock and not self.postfail
                                   and "Error: The behavior up to this point" not in out)

    def hist_lines(self):
        seen, out = set(), []
        for line in self.out.splitlines():
            if line.startswith('"HIST '):
                try:
                    s = json.loads(line)[5:]
                except ValueError:
                    continue
                if s not in seen:
                    seen.add(s)
                    out.append(s)
        return out


def run_tlc(specdir, name, workers=8, xmx="6g", timeout=1800, extra=(), tag="md"):
    md = os.path.join(specdir, tag + "-" + name)
    t0 = time.time()
    try:
        p = run(tlc_cmd(name + ".cfg", name + ".tla", md, workers, xmx, extra), cwd=specdir, timeout=timeout)
    except subprocess.TimeoutExpired:
        raise Inconclusive("TLC timed out on %s after %ds" % (name, timeout))
    shutil.rmtree(md, ignore_errors=True)
    r = TlcResult(p.stdout, p.returncode)
    r.wall = time.time() - t0
    return r


# ---------------------------------------------------------------------------
# trace validation (sharded)

def shard_trace(path, outdir, nshards, max_per_shard=4000):
    """Splits an ndjson trace (header + records) into files that each repeat the header.
    Chained records (chain=true) stay with their predecessor."""
    os.makedirs(outdir, exist_ok=True)
    with open(path) as f:
        header = f.readline()
        recs = f.readlines()
    if not recs:
        return []
    per = max(1, min(max_per_shard, (len(recs) + nshards - 1) // nshards))
    shards, cur = [], []
    for line in recs:
        chained = '"chain":true' in line
        if len(cur) >= per and not chained:
            shards.append(cur)
            cur = []
        cur.append(line)
    if cur:
        shards.append(cur)
    files = []
    for i, sh in enumerate(shards):
        p = os.path.join(outdir, "shard%04d.ndjson" % i)
        with open(p, "w") as f:
            f.write(header)
            f.writelines(sh)
        files.append((p, len(sh)))
    return files


RE_L = re.compile(r"/\\ l = (\d+)")


def parse_violations(out):
    """Returns [(operator, l)] from a TLC -continue run of a Trace_* module."""
    res = []
    lines = out.splitlines()
    i = 0
    while i < len(lines):
        m = RE_INV.search(lines[i]) or RE_ACT.search(lines[i])
        if m:
            op = m.group(1)
            lval = None
            j = i + 1
            while j < len(lines) and not lines[j].startswith("Error: Invariant") \
                    and not lines[j].startswith("Error: Action property") \
                    and not lines[j].startswith("Model checking completed"):
                mm = RE_L.search(lines[j])
                if mm:
                    lval = int(mm.group(1))
                j += 1
            res.append((op, lval))
            i = j
        else:
            i += 1
    return res


def validate_traces(specdir, module, trace_path, invariants, properties, scratch, nshards=None,
                    xmx="3g", timeout=1800, consts=None):
    """Validates one observed-trace file against Trace_<module>; returns
    (records_validated, [(operator, record_dict)], inconclusive_reason or None)."""
    nshards = nshards or NCPU
    sdir = os.path.join(scratch, "shards-" + os.path.basename(trace_path))
    files = shard_trace(trace_path, sdir, nshards)
    if not files:
        return 0, [], None

    def one(idx_file):
        idx, (fpath, n) = idx_file
        name = "TR%04d" % idx
        c = {"TraceFile": fpath}
        if consts:
            c.update(consts)
        write_mc(specdir, module, c, invariants=invariants, properties=properties,
                 postcondition="TraceAccepted", name=name)
        md = os.path.join(specdir, "md-" + name)
        try:
            p = run(tlc_cmd(name + ".cfg", name + ".tla", md, 1, xmx, ("-continue",)), cwd=specdir, timeout=timeout)
        except subprocess.TimeoutExpired:
            return idx, fpath, n, None, "timeout"
        shutil.rmtree(md, ignore_errors=True)
        return idx, fpath, n, p.stdout, None

    total, viols, bad = 0, [], None
    with ThreadPoolExecutor(max_workers=min(nshards, NCPU)) as ex:
        for idx, fpath, n, out, err in ex.map(one, enumerate(files)):
            if err:
                bad = "trace validation %s on shard %d" % (err, idx)
                continue
            r = TlcResult(out, 0)
            vs = parse_violations(out)
            if r.crashed and not vs:
                bad = "TLC failed on shard %d:\n%s" % (idx, out[-3000:])
                continue
            if r.postfail:
                bad = "TLC did not walk every record of shard %d (%d distinct states for %d records)" % (idx, r.distinct, n)
                continue
            if r.distinct != 2 * n:
                errs = [ln for ln in out.splitlines() if ln.startswith("Error:") or "Attempted" in ln][:6]
                bad = "shard %d: %d distinct states for %d records\n%s" % (idx, r.distinct, n, "\n".join(errs))
                continue
            total += n
            if vs:
                with open(fpath) as f:
                    lines = f.readlines()
                for op, lval in vs:
                    rec = json.loads(lines[lval]) if lval and lval < len(lines) else None
                    viols.append((op, rec))
    return total, viols, bad


# ---------------------------------------------------------------------------
# known findings, replays, evidence

def load_known():
    p = os.path.join(VERIF, "known_findings.json")
    if not os.path.exists(p):
        return {"findings": [], "fixed": []}
    return json.load(open(p))


def match_known(prop, descriptor, known):
    """descriptor: dict; a finding matches when every key of its `match` equals the descriptor's."""
    for f in known.get("findings", []):
        if f.get("property") != prop:
            continue
        m = f.get("match", {})
        if all(descriptor.get(k) == v for k, v in m.items()):
            return f
    return None


def write_replay(prop, payload):
    os.makedirs(REPLAYS, exist_ok=True)
    blob = json.dumps(payload, sort_keys=True)
    h = hashlib.sha256(blob.encode()).hexdigest()[:12]
    p = os.path.join(REPLAYS, "%s-%s.json" % (prop, h))
    open(p, "w").write(json.dumps(payload, indent=1, sort_keys=True))
    return p


class Report:
    """Collects the outcome of one check run and turns it into stdout lines, the evidence
    file and the exit code."""

    def __init__(self, prop, tier, seed, level):
        self.prop, self.tier, self.seed, self.level = prop, tier, seed, level
        self.t0 = time.time()
        self.coverage = {"samples": []}
        self.assumptions = []
        self.violations = []      # (descriptor, replay payload)
        self.known_hits = []
        self.drift = []
        self.notes = []
        self.known = load_known()

    def add_violation(self, descriptor, payload):
        f = match_known(self.prop, descriptor, self.known)
        if f:
            key = f["id"]
            if key not in [k for k, _ in self.known_hits]:
                self.known_hits.append((key, f["what"]))
            return
        self.violations.append((descriptor, payload))

    def add_drift(self, what):
        if what not in self.drift:
            self.drift.append(what)

    def finish(self):
        wall = time.time() - self.t0
        seen = set()
        nviol = 0
        counts = {}
        for desc, payload in self.violations:
            sig = json.dumps(desc, sort_keys=True)
            counts[sig] = counts.get(sig, 0) + 1
        if counts:
            self.coverage["violation_signatures"] = [{"descriptor": json.loads(k), "count": v}
                                                      for k, v in sorted(counts.items(), key=lambda kv: -kv[1])][:40]
        for desc, payload in self.violations:
            sig = json.dumps(desc, sort_keys=True)
            if sig in seen:
                continue
            seen.add(sig)
            nviol += 1
            if nviol <= 5:
                payload = dict(payload, property=self.prop, descriptor=desc, seed=self.seed, tier=self.tier)
                path = write_replay(self.prop, payload)
                print("VIOLATION property=%s replay=%s" % (self.prop, path))
                log("  ", json.dumps(desc, sort_keys=True)[:400])
        for key, what in self.known_hits:
            print("KNOWN-FINDING: property=%s %s (%s)" % (self.prop, what, key))
        for d in self.drift[:10]:
            print("MODEL-DRIFT property=%s %s" % (self.prop, d))
        level = self.level
        cov = dict(self.coverage)
        cov["model_drift"] = self.drift[:10]
        cov["known_findings_seen"] = [k for k, _ in self.known_hits]
        cov["notes"] = self.notes
        if self.drift and level == "model_checking":
            cov["level_downgraded_because"] = "model drift: exhaustive model result does not transfer"
            level = "exploration"
            cov.setdefault("evaluations", cov.get("traces_validated_against_impl", 0) or 1)
            cov.setdefault("distinct_nontrivial", max(2, cov.get("traces_validated_against_impl", 0)))
            cov.setdefault("rule", "observed traces validated by Layer P only")
        ev = {"property_id": self.prop, "tier": self.tier, "seed": self.seed, "level": level,
              "coverage": cov, "assumptions": self.assumptions, "wall_s": round(wall, 2),
              "violations": nviol}
        os.makedirs(EVIDENCE, exist_ok=True)
        tmp = os.path.join(EVIDENCE, self.prop + ".json.tmp")
        open(tmp, "w").write(json.dumps(ev, indent=1))
        os.replace(tmp, os.path.join(EVIDENCE, self.prop + ".json"))
        log("%s %s: %s in %.1fs" % (self.prop, self.tier, "VIOLATIONS=%d" % nviol if nviol else "ok", wall))
        return 1 if nviol else 0
