#!/bin/sh
# usage: tools/try_seed.sh <patch.diff> <Cxx> [<Cyy> ...]   - apply a seeded change to /repo, run the quick checks, undo it
set -u
patch=$1; shift
cd /repo || exit 2
if [ -n "$(git status --porcelain)" ]; then echo "repo not clean"; exit 2; fi
git apply "$patch" || { echo "patch does not apply"; exit 2; }
cd /verif
# evidence and replays of runs on a modified tree must never land in /verif/evidence
export VERIF_EVIDENCE_DIR=$(mktemp -d /tmp/seed-evidence.XXXXXX)
for p in "$@"; do
  echo "== $p"
  ./check "$p" --tier quick 2>&1 | grep -v "^  \|^built" | grep -i "VIOLATION\|KNOWN\|DRIFT\|quick:\|inconclusive" | tail -8
  echo "exit=$?"
done
git -C /repo checkout -- . && git -C /repo status --porcelain
rm -rf "$VERIF_EVIDENCE_DIR"
