#!/bin/sh
# usage: tools/try_seed.sh <patch.diff> <Cxx> [<Cyy> ...]   - apply a seeded change to /repo, run the quick checks, undo it
set -u
patch=$1; shift
cd /repo || exit 2
if [ -n "$(git status --porcelain)" ]; then echo "repo not clean"; exit 2; fi
git apply "$patch" || { echo "patch does not apply"; exit 2; }
cd /verif
for p in "$@"; do
  echo "== $p"
  ./check "$p" --tier quick 2>&1 | grep -v "^  \|^built" | head -12
  echo "exit=$?"
done
git -C /repo checkout -- . && git -C /repo status --porcelain
