#!/usr/bin/env python3
"""usage: seed_regress.py [<seed-id-prefix> ...]
Applies every archived seeded change to /repo in turn, runs the quick checks its meta.json names as detectors
(stopping at the first that reports a violation), undoes the change, and writes seeded/regression.json.
Evidence of these runs goes to a temporary directory, never to /verif/evidence."""
import json
import os
import shutil
import subprocess
import sys
import tempfile
import time

ROOT = "/verif"
REPO = "/repo"


def sh(cmd, **kw):
    return subprocess.run(cmd, stdout=subprocess.PIPE, stderr=subprocess.STDOUT, text=True, **kw)


def main():
    want = sys.argv[1:]
    if sh(["git", "-C", REPO, "status", "--porcelain"]).stdout.strip():
        print("repo not clean")
        return 2
    out_path = os.path.join(ROOT, "seeded", "regression.json")
    results = json.load(open(out_path)) if os.path.exists(out_path) else {}
    for sid in sorted(os.listdir(os.path.join(ROOT, "seeded"))):
        d = os.path.join(ROOT, "seeded", sid)
        if not os.path.isdir(d) or (want and not any(sid.startswith(w) for w in want)):
            continue
        meta = json.load(open(os.path.join(d, "meta.json")))
        checks = meta.get("detected_by_quick_checks") or [meta["breaks_property"]]
        if sh(["git", "-C", REPO, "apply", os.path.join(d, "patch.diff")]).returncode != 0:
            results[sid] = {"error": "patch does not apply"}
            continue
        ev = tempfile.mkdtemp(prefix="seed-evidence.")
        env = dict(os.environ, VERIF_EVIDENCE_DIR=ev)
        res = {"property": meta["breaks_property"], "runs": []}
        try:
            for c in checks:
                t0 = time.time()
                p = sh([os.path.join(ROOT, "check"), c, "--tier", "quick"], env=env, cwd=ROOT)
                viol = [l for l in p.stdout.splitlines() if l.startswith("VIOLATION property=")]
                drift = [l for l in p.stdout.splitlines() if l.startswith("MODEL-DRIFT")]
                res["runs"].append({"check": c, "exit": p.returncode, "violations": len(viol), "drift": drift[:3],
                                    "wall_s": round(time.time() - t0, 1)})
                if viol and p.returncode == 1:
                    break
            res["detected"] = any(r["violations"] and r["exit"] == 1 for r in res["runs"])
        finally:
            sh(["git", "-C", REPO, "checkout", "--", "."])
            shutil.rmtree(ev, ignore_errors=True)
        results[sid] = res
        print(sid, "DETECTED" if res["detected"] else "missed", [(r["check"], r["exit"], r["violations"]) for r in res["runs"]], flush=True)
        json.dump(results, open(out_path, "w"), indent=1, sort_keys=True)
    return 0


if __name__ == "__main__":
    sys.exit(main())
