"""Per-property manifest texts."""

HOOK_COMMITS = ["74aefc2", "366111c", "80265e4", "5f05837"]
NOTES = "See DESIGN.md. exit 0 = held on everything explored, exit 1 = VIOLATION line, exit 2 = inconclusive (never a verdict)."
DEFAULT_NA = "check under construction in this round (specification and harness for this property not yet committed); planned technique in DESIGN.md section 6"
NOT_APPLICABLE = {}

_L_TEXT = ("TLC explores every history of the bounded IpfsLog.tla model (design level: the transcribed algorithm implies the "
           "property in every reachable state / transition); every explored history is then replayed on the real code and TLC "
           "validates the observed pre/post states of all replicas against the property predicates (Layer P) and against the "
           "specification's own actions (Layer M), plus seeded TLC -simulate deep histories")
_L_NOTE = ("bounds are the constants recorded in evidence coverage.plans (small-scope exhaustive + seeded simulation); trusted: TLC, "
           "CommunityModules Json reader, fake in-memory block store in place of kubo, libp2p secp256k1")
_L_TECH = "TLA+ spec IpfsLog.tla/LogOps.tla model-checked by TLC; TLC-generated histories replayed on the real code; observed traces validated by TLC against Trace_IpfsLog.tla"

_F_TEXT = ("TLC explores every interleaving of the fetcher's critical sections (main loop, sem.Acquire under the mutex, fetch completion, "
           "locked result processing, cond wake-up, deadline) in Fetcher.tla for each loader instance over stored logs that IpfsLog.tla "
           "histories produce on the real code; TLC-chosen schedules are imposed on the real fetcher (gated Dag().Get in the fake store + "
           "verif-tagged yield hooks), every event emitted under the process mutex is validated as the model's step from the observed "
           "pre-state (Layer M) and the outcome against the property (Layer P)")
_F_NOTE = ("stored logs of 5-7 blocks with forks and skip references, concurrency 1-3 (32 for NewFromJSON, which ignores the option); "
           "FetchDone/Process orders are forced, main-loop wake-ups are not controllable and run freely; fake store, TLC and the Json reader trusted")
_F_TECH = "TLA+ spec Fetcher.tla/FetchOps.tla model-checked by TLC (safety + liveness); TLC schedules replayed on the real fetcher through a deterministic scheduler; observed traces validated by TLC against Trace_Fetcher.tla"

_K_TEXT = ("TLC explores every interleaving of the calls' steps (a step = what the code does between two verif yield points: entry of each "
           "public operation, Join between snapshotting the source and locking the destination) in LogConc.tla after every short sequential "
           "setup history; each interleaving is imposed on real goroutines by the lock scheduler, the state of every log is projected "
           "after each step and TLC validates steps and outcomes against the property predicates and the model's step structure")
_K_NOTE = ("interleavings at yield-point granularity are forced exactly; interleavings inside a critical section are left to the race "
           "detector runs (dynamic: races on the executions performed); a goroutine that neither parks nor returns within 0.4 s of its "
           "release counts as blocked on a lock")
_K_TECH = "TLA+ spec LogConc.tla model-checked by TLC (safety + liveness); TLC interleavings replayed on real goroutines through yield hooks; observed traces validated by TLC against Trace_LogConc.tla; Go race detector on the same operation combinations"

CLAIMED = {
    "C01": dict(level="model_checking", text=_L_TEXT, note=_L_NOTE, technique=_L_TECH),
    "C02": dict(level="model_checking", text=_L_TEXT + "; in addition Apalache discharges an inductive invariant (heads = maximal entries, reverse index exact, causally closed) on the sets-only abstraction CoreInd.tla for every DAG over the bounded entry universe",
                note=_L_NOTE, technique=_L_TECH + "; Apalache inductive-invariant check of CoreInd.tla (recorded in the evidence, never a verdict)"),
    "C03": dict(level="model_checking", text=_L_TEXT, note=_L_NOTE, technique=_L_TECH),
    "C04": dict(level="model_checking", text=_L_TEXT + "; appends to logs read back from the store (Load action) under every comparator, a hand-picked nine-branch fork, and an Apalache-discharged inductive invariant for the clock rule (ClockInd.tla: the time Append computes dominates every entry of the log, also after refused appends, identity changes and reloads)",
                note=_L_NOTE, technique=_L_TECH + "; Apalache inductive-invariant check of ClockInd.tla (recorded in the evidence, never a verdict)"),
    "C05": dict(level="model_checking", text=_L_TEXT, note=_L_NOTE, technique=_L_TECH),
    "C06": dict(level="model_checking",
                text=_L_TEXT + "; an adversarial replica (Tamper action) replaces any entry it holds by an unsigned / mis-signed / keyless / wrong-key / payload-edited / foreign-id copy at every position (candidate or not), access controllers deny a writer or everybody, and the exploration is repeated for the default, link-encrypting and legacy protobuf codecs; ground truth about validity comes from the script, never from Verify",
                note=_L_NOTE + "; a panic on a library goroutine (process crash) is reported as a violation with the crashing script isolated by re-running it alone", technique=_L_TECH),
    "C07": dict(level="exploration",
                text="Codec.tla models the signing view the code implements (toBuffer/ToHashable, incl. json.Marshal's treatment of invalid UTF-8) with an ideal signature, so 'tamper evident' = 'the map from signed parts to signing view is injective'; TLC checks that on every abstract entry (payloads over 8 byte classes, link lists, ids, clocks, versions, keys) and exports every single-part modification and every signature substitution as an obligation; each is concretised with several real byte strings per class, signed and verified by the real code; TLC validates the observed verdicts (Layer P: modified entry must not verify) and that the code accepts exactly what the modelled signing view cannot distinguish (Layer M)",
                note="exploration, not model checking: the universal over bytes is sampled through class representatives; secp256k1 trusted; one format-level known finding (invalid UTF-8 payload bytes collapse) is listed in known_findings.json",
                technique="TLA+ spec Codec.tla (ideal-signature model of the signing view) checked by TLC, which also enumerates the obligation matrix; obligations evaluated on the real code; verdicts validated by TLC against Trace_Codec.tla"),
    "C08": dict(level="exploration",
                text="TLC enumerates every entry shape of Codec.tla (8 payload classes incl. all 256 byte values, invalid UTF-8, NUL, 70 kB; next/refs nil/empty/one/two; four clock classes; default and link-encrypting codec); each is written and read back by the real code and compared field by field, re-encoded (same identifier with the default codec), encoded again (determinism) and encoded in two separate processes (identical identifiers); the pinned interoperability vectors (literal CIDs, identity signatures, legacy v0 protobuf blocks) must stay bit-exact; verdicts validated by TLC",
                note="byte classes are sampled; refmt/cbor and go-cid trusted", technique="TLA+ spec Codec.tla enumerates shapes (TLC); real encode/decode round trips; verdicts validated by TLC against Trace_Codec.tla"),
    "C12": dict(level="exploration",
                text="TLC enumerates the wire-shape lattice of Codec.tla: every field of an entry (v2 CBOR, legacy v0 JSON/protobuf), of its clock, identity and signatures, and of a manifest x {absent, null, wrong type, bad value} (pairs of deviations in the thorough tier); each is encoded as well-formed CBOR/JSON and decoded by the real code under recover, every accessor, comparison, Verify, Sort, FindHeads is then called on whatever was returned; plus random, truncated, bit-flipped and spliced byte strings; the loader clause reuses the fetcher machinery (Fetcher.tla + scheduler) with malformed blocks planted at every position of stored logs: the rest of the history must load, on every schedule",
                note="arbitrary bytes are sampled (400 / 6000 strings); a panic on a fetcher goroutine (process crash) is reported as a violation", technique="TLA+ spec Codec.tla enumerates wire shapes (TLC); real decoding under recover; loader clause via Fetcher.tla schedules on the real fetcher; verdicts validated by TLC (Trace_Codec.tla, Trace_Fetcher.tla)"),
    "C09": dict(level="model_checking", text=_F_TEXT + "; unlimited reload through the manifest, the JSON head list, the head entries and (single-headed logs) the head hash, compared with the original replica (id, entries, heads, linearised values)", note=_F_NOTE, technique=_F_TECH),
    "C10": dict(level="model_checking", text=_F_TEXT + "; every limit 0..size+1 for the four loaders; count and content (supplied entries plus the newest others) on every schedule", note=_F_NOTE, technique=_F_TECH),
    "C11": dict(level="model_checking", text=_F_TEXT + "; every single faulty block x {missing, error, undecodable} (pairs in the thorough tier), a never-answering block with a deadline fired at a TLC-chosen point, excluded and duplicate starting hashes; termination is a liveness property of the model under weak fairness and 'the call returns once everything parked is released' on the real code; real-time runs with the loader's own Timeout option", note=_F_NOTE, technique=_F_TECH),
    "C13": dict(level="model_checking",
                text=_K_TEXT + "; one log shared by 2-3 concurrently issued calls drawn from appends, merges in, every read accessor, identity change and manifest publication; checked: all calls return, appends appear exactly once and form one chain respecting real-time order, every value a read returned and every observed state is structurally sound; data races: the same operation combinations (plus a failing multi-candidate join and a size-bounded join against the readers) free-running under the Go race detector",
                note=_K_NOTE, technique=_K_TECH),
    "C14": dict(level="model_checking",
                text=_K_TEXT + "; merges from a log that is concurrently appended to, merged into and merging back (2 logs, and 3 logs merging in a cycle); checked: every merge returns, its result is the union of the destination with a state the source was observed in between call and return, heads are entries and maximal",
                note=_K_NOTE, technique=_K_TECH),
    "C15": dict(level="model_checking",
                text=_L_TEXT + "; the Iterator option space of the property's quantifier (0-2 inclusive upper bounds related or not, one exclusive, unknown ones, every lower bound in range, every amount 0..size+1) is enumerated by TLC per reachable log",
                note=_L_NOTE, technique=_L_TECH),
    "C17": dict(level="fault_enumeration",
                text="every crash point (the store after each individual block write) of every TLC-explored history of appends, merges and manifest publications on replicas sharing one store: the store prefix is audited for causal closure (logical next/refs and IPLD links), the block of whatever a call returns must already be stored when it returns, and each returned handle (head hash via NewFromEntryHash and NewFromEntry, manifest via NewFromMultihash) is loaded from the store prefix as of its return and must give the replica's state at that moment; the predicates are evaluated by TLC on the observed trace (Trace_IpfsLog.tla); design level: entries only link backwards",
                note="crash = loss of all memory, store keeps exactly the writes performed so far (write log of the fake store); one write per Append/Publish in this code base, so prefixes coincide with op boundaries; bounded histories + seeded simulation",
                technique="TLA+ spec IpfsLog.tla (Publish action, backward links) explored by TLC; histories replayed on the real code with a write-logging store; store prefixes and loader recoveries validated by TLC against Trace_IpfsLog.tla"),
    "C18": dict(level="model_checking",
                text=_L_TEXT + "; run with the link-encrypting codec: every stored entry block is scanned for the binary, base32 and base58 forms of every CID of the run and for IPLD links, and decoded by a reader with the same key (must recover identical next/refs and verify), with no key and with another key (must obtain no links); merges between same-key replicas must succeed",
                note=_L_NOTE + "; secretbox trusted; two fixed 32-byte link keys", technique=_L_TECH),
    "C19": dict(level="model_checking",
                text="TLC checks the order laws (strict total order of the hash-tiebreak ordering, LWW = HASH on distinct clocks, clock comparison antisymmetric/transitive, respect of clock time, FWW = -LWW, Sort is an ordered permutation) on the transcribed comparators over the complete cube of (time, id, hash) rank triples; the real functions are then evaluated on concrete entries order-isomorphic to every triple of rank triples (several palettes of boundary and negative values) and TLC validates the observed sign table against the same laws (Layer P) and against the transcription (Layer M); sorting.Sort likewise, incl. insertion-sort tie behaviour",
                note="complete cube for K=3 (27^3 triples) plus K=2 cubes for 13 concrete value palettes; lists up to 12 elements; concrete values are samples of each rank class",
                technique="TLA+ spec Sorting.tla (laws over LogOps comparators) model-checked by TLC; observed comparison/sort tables of the real functions validated by TLC against Trace_Sorting.tla"),
    "C20": dict(level="model_checking",
                text="TLC explores every history of create/get/has/evict/restart/create-identity over several keystore instances sharing one datastore in Keystore.tla (cache abstracted to 'anything may be evicted'); every history is replayed on real Keystore instances over one datastore (eviction realised through the real LRU, restart by a new instance) and TLC validates each observed call against the property predicates with the driver's ground truth of which ids exist and which key/identity fingerprints they had; deep seeded simulations with 3 instances and 4 ids",
                note="ids created at most once; LRU capacity 128 exercised through filler keys; secp256k1 signatures (RFC 6979 deterministic) trusted",
                technique="TLA+ spec Keystore.tla model-checked by TLC; TLC-generated histories replayed on real keystores; observed traces validated by TLC against Trace_Keystore.tla"),
    "C16": dict(level="model_checking", text=_L_TEXT + "; every size bound 0..beyond the merged size", note=_L_NOTE, technique=_L_TECH),
}
