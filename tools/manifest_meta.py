"""Per-property manifest texts."""

HOOK_COMMITS = []
NOTES = "See DESIGN.md. exit 0 = held on everything explored, exit 1 = VIOLATION line, exit 2 = inconclusive (never a verdict)."
DEFAULT_NA = "check under construction in this round (specification and harness for this property not yet committed); planned technique in DESIGN.md section 6"
NOT_APPLICABLE = {}

_L_TEXT = ("TLC explores every history of the bounded IpfsLog.tla model (design level: the transcribed algorithm implies the "
           "property in every reachable state / transition); every explored history is then replayed on the real code and TLC "
           "validates the observed pre/post states of all replicas against the property predicates (Layer P) and against the "
           "specification's own actions (Layer M), plus seeded TLC -simulate deep histories")
_L_NOTE = ("bounds are the constants recorded in evidence coverage.plans (small-scope exhaustive + seeded simulation); trusted: TLC, "
           "CommunityModules Json reader, fake in-memory block store in place of kubo, libp2p secp256k1")
_L_TECH = "TLA+ spec IpfsLog.tla/LogOps.tla model-checked by TLC; TLC-generated histories replayed on the real code; observed traces validated by TLC against Trace_IpfsLog.tla"

CLAIMED = {
    "C01": dict(level="model_checking", text=_L_TEXT, note=_L_NOTE, technique=_L_TECH),
    "C02": dict(level="model_checking", text=_L_TEXT, note=_L_NOTE, technique=_L_TECH),
    "C03": dict(level="model_checking", text=_L_TEXT, note=_L_NOTE, technique=_L_TECH),
    "C04": dict(level="model_checking", text=_L_TEXT, note=_L_NOTE, technique=_L_TECH),
    "C05": dict(level="model_checking", text=_L_TEXT, note=_L_NOTE, technique=_L_TECH),
    "C06": dict(level="model_checking",
                text=_L_TEXT + "; an adversarial replica (Tamper action) replaces any entry it holds by an unsigned / mis-signed / keyless / wrong-key / payload-edited / foreign-id copy at every position (candidate or not), access controllers deny a writer or everybody, and the exploration is repeated for the default, link-encrypting and legacy protobuf codecs; ground truth about validity comes from the script, never from Verify",
                note=_L_NOTE + "; a panic on a library goroutine (process crash) is reported as a violation with the crashing script isolated by re-running it alone", technique=_L_TECH),
    "C15": dict(level="model_checking",
                text=_L_TEXT + "; the Iterator option space of the property's quantifier (0-2 inclusive upper bounds related or not, one exclusive, unknown ones, every lower bound in range, every amount 0..size+1) is enumerated by TLC per reachable log",
                note=_L_NOTE, technique=_L_TECH),
    "C19": dict(level="model_checking",
                text="TLC checks the order laws (strict total order of the hash-tiebreak ordering, LWW = HASH on distinct clocks, clock comparison antisymmetric/transitive, respect of clock time, FWW = -LWW, Sort is an ordered permutation) on the transcribed comparators over the complete cube of (time, id, hash) rank triples; the real functions are then evaluated on concrete entries order-isomorphic to every triple of rank triples (several palettes of boundary and negative values) and TLC validates the observed sign table against the same laws (Layer P) and against the transcription (Layer M); sorting.Sort likewise, incl. insertion-sort tie behaviour",
                note="complete cube for K=3 (27^3 triples) plus K=2 cubes for 13 concrete value palettes; lists up to 12 elements; concrete values are samples of each rank class",
                technique="TLA+ spec Sorting.tla (laws over LogOps comparators) model-checked by TLC; observed comparison/sort tables of the real functions validated by TLC against Trace_Sorting.tla"),
    "C20": dict(level="model_checking",
                text="TLC explores every history of create/get/has/evict/restart/create-identity over several keystore instances sharing one datastore in Keystore.tla (cache abstracted to 'anything may be evicted'); every history is replayed on real Keystore instances over one datastore (eviction realised through the real LRU, restart by a new instance) and TLC validates each observed call against the property predicates with the driver's ground truth of which ids exist and which key/identity fingerprints they had; deep seeded simulations with 3 instances and 4 ids",
                note="ids created at most once; LRU capacity 128 exercised through filler keys; secp256k1 signatures (RFC 6979 deterministic) trusted",
                technique="TLA+ spec Keystore.tla model-checked by TLC; TLC-generated histories replayed on real keystores; observed traces validated by TLC against Trace_Keystore.tla"),
    "C16": dict(level="model_checking", text=_L_TEXT + "; every size bound 0..beyond the merged size", note=_L_NOTE, technique=_L_TECH),
}
