# sourced by every script: offline Go environment
export GOFLAGS=-mod=mod GOPROXY=off GOSUMDB=off GOTOOLCHAIN=local
export CGO_ENABLED=${CGO_ENABLED:-1}
