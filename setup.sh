#!/bin/sh
# Run once after a fresh restore, offline: warm the Go build cache for the harness
# (built against /repo's working tree) and parse every specification.
set -e
cd "$(dirname "$0")"
. ./env.sh
tmp=$(mktemp -d)
trap 'rm -rf "$tmp"' EXIT
cp -r harness "$tmp/harness"
cat /repo/go.sum >> "$tmp/harness/go.sum"
(cd "$tmp/harness" && go build -tags verif -o "$tmp/verif-bin" ./cmd/verif)
(cd "$tmp/harness" && go vet -tags verif ./... >/dev/null 2>&1 || true)
mkdir "$tmp/spec" && cp spec/*.tla "$tmp/spec/"
for f in "$tmp"/spec/*.tla; do
  (cd "$tmp/spec" && java -cp /opt/veriftools/tla/tla2tools.jar:/opt/veriftools/tla/CommunityModules-deps.jar tla2sany.SANY "$(basename "$f")" >/dev/null) || { echo "SANY failed on $f"; exit 1; }
done
echo "setup ok"
