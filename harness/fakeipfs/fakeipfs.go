// Package fakeipfs is an in-memory, fully controllable stand-in for the part
// of coreiface.CoreAPI that go-ipfs-log uses (Dag().Add / Dag().Get, Pin().Add).
//
// It records every write (the "write log": crash points for C17, raw bytes for
// C18) and every read request (for C11's "never twice / never excluded"), can
// inject per-CID faults, and can gate every Get on a controller so that a
// scheduler decides the completion order of outstanding block requests.
package fakeipfs

import (
	"context"
	"errors"
	"fmt"
	"sync"

	"github.com/ipfs/boxo/path"
	"github.com/ipfs/go-cid"
	format "github.com/ipfs/go-ipld-format"
	dag "github.com/ipfs/go-merkledag"
	coreiface "github.com/ipfs/kubo/core/coreiface"
	"github.com/ipfs/kubo/core/coreiface/options"
)

// FaultKind says how a Get for one CID misbehaves.
type FaultKind int

const (
	FaultNone     FaultKind = iota
	FaultMissing            // format.ErrNotFound
	FaultError              // a generic error
	FaultCtxError           // an error wrapping context.DeadlineExceeded although the caller's context is alive (a storage
	// layer with its own per-request deadline)
	FaultGarbage // a node whose bytes are not a valid block of any codec
	FaultReplace // a node with caller-supplied bytes (malformed block of a given shape)
	FaultSlow    // never answers; returns only when ctx is done
)

var ErrInjected = errors.New("fakeipfs: injected failure")

// Write is one entry of the write log.
type Write struct {
	Cid  cid.Cid
	Node format.Node
}

// Removal is one entry of the removal log: the block was deleted when After writes had been done.
type Removal struct {
	Cid   cid.Cid
	After int
}

// GateFunc is called by Get (outside the store mutex) before the answer is
// produced. It may block; it must return when ctx is done.
type GateFunc func(ctx context.Context, c cid.Cid, seq int)

type Dag struct {
	mu      sync.Mutex
	blocks  map[cid.Cid]format.Node
	writes  []Write
	removes []Removal
	gets    []cid.Cid
	faults  map[cid.Cid]FaultKind
	replace map[cid.Cid][]byte
	gate    GateFunc
	onAdd   func(w Write, idx int)
	addErr  func(format.Node) error
}

type API struct {
	coreiface.CoreAPI // nil: any method other than Dag/Pin panics, which a run reports as harness failure
	D                 *Dag
}

func New() *API {
	return &API{D: &Dag{
		blocks:  map[cid.Cid]format.Node{},
		faults:  map[cid.Cid]FaultKind{},
		replace: map[cid.Cid][]byte{},
	}}
}

func (a *API) Dag() coreiface.APIDagService { return a.D }
func (a *API) Pin() coreiface.PinAPI        { return pinAPI{} }

type pinAPI struct{ coreiface.PinAPI }

func (pinAPI) Add(context.Context, path.Path, ...options.PinAddOption) error { return nil }
func (pinAPI) Rm(context.Context, path.Path, ...options.PinRmOption) error   { return nil }

// ---- format.DAGService ----

func (d *Dag) Add(ctx context.Context, n format.Node) error {
	if err := ctx.Err(); err != nil {
		return err
	}
	d.mu.Lock()
	if d.addErr != nil {
		if err := d.addErr(n); err != nil {
			d.mu.Unlock()
			return err
		}
	}
	d.blocks[n.Cid()] = n
	w := Write{Cid: n.Cid(), Node: n}
	d.writes = append(d.writes, w)
	idx := len(d.writes)
	cb := d.onAdd
	d.mu.Unlock()
	if cb != nil {
		cb(w, idx)
	}
	return nil
}

func (d *Dag) AddMany(ctx context.Context, ns []format.Node) error {
	for _, n := range ns {
		if err := d.Add(ctx, n); err != nil {
			return err
		}
	}
	return nil
}

func (d *Dag) Get(ctx context.Context, c cid.Cid) (format.Node, error) {
	d.mu.Lock()
	d.gets = append(d.gets, c)
	seq := len(d.gets)
	gate := d.gate
	d.mu.Unlock()

	if gate != nil {
		gate(ctx, c, seq)
	}

	d.mu.Lock()
	fk := d.faults[c]
	n, ok := d.blocks[c]
	rep := d.replace[c]
	d.mu.Unlock()

	if fk == FaultSlow {
		<-ctx.Done()
		return nil, ctx.Err()
	}
	if err := ctx.Err(); err != nil {
		return nil, err
	}
	switch fk {
	case FaultMissing:
		return nil, format.ErrNotFound{Cid: c}
	case FaultError:
		return nil, ErrInjected
	case FaultCtxError:
		return nil, fmt.Errorf("fakeipfs: request deadline of the storage layer: %w", context.DeadlineExceeded)
	case FaultGarbage:
		return dag.NewRawNode([]byte{0xff, 0x00, 0xfe, 0x13, 0x37}), nil
	case FaultReplace:
		return dag.NewRawNode(rep), nil
	}
	if !ok {
		return nil, format.ErrNotFound{Cid: c}
	}
	return n, nil
}

func (d *Dag) GetMany(ctx context.Context, cs []cid.Cid) <-chan *format.NodeOption {
	out := make(chan *format.NodeOption, len(cs))
	for _, c := range cs {
		n, err := d.Get(ctx, c)
		out <- &format.NodeOption{Node: n, Err: err}
	}
	close(out)
	return out
}

func (d *Dag) Remove(ctx context.Context, c cid.Cid) error {
	d.mu.Lock()
	defer d.mu.Unlock()
	if _, ok := d.blocks[c]; ok {
		d.removes = append(d.removes, Removal{Cid: c, After: len(d.writes)})
	}
	delete(d.blocks, c)
	return nil
}

func (d *Dag) RemoveMany(ctx context.Context, cs []cid.Cid) error {
	for _, c := range cs {
		_ = d.Remove(ctx, c)
	}
	return nil
}

func (d *Dag) Pinning() format.NodeAdder { return d }

// ---- control surface ----

func (d *Dag) SetFault(c cid.Cid, k FaultKind) {
	d.mu.Lock()
	defer d.mu.Unlock()
	if k == FaultNone {
		delete(d.faults, c)
		return
	}
	d.faults[c] = k
}

func (d *Dag) SetReplace(c cid.Cid, raw []byte) {
	d.mu.Lock()
	defer d.mu.Unlock()
	d.faults[c] = FaultReplace
	d.replace[c] = raw
}

func (d *Dag) ClearFaults() {
	d.mu.Lock()
	defer d.mu.Unlock()
	d.faults = map[cid.Cid]FaultKind{}
	d.replace = map[cid.Cid][]byte{}
}

func (d *Dag) SetGate(g GateFunc) {
	d.mu.Lock()
	defer d.mu.Unlock()
	d.gate = g
}

func (d *Dag) SetOnAdd(f func(w Write, idx int)) {
	d.mu.Lock()
	defer d.mu.Unlock()
	d.onAdd = f
}

func (d *Dag) SetAddErr(f func(format.Node) error) {
	d.mu.Lock()
	defer d.mu.Unlock()
	d.addErr = f
}

// Writes returns a copy of the write log.
func (d *Dag) Writes() []Write {
	d.mu.Lock()
	defer d.mu.Unlock()
	out := make([]Write, len(d.writes))
	copy(out, d.writes)
	return out
}

// Removals returns a copy of the removal log.
func (d *Dag) Removals() []Removal {
	d.mu.Lock()
	defer d.mu.Unlock()
	out := make([]Removal, len(d.removes))
	copy(out, d.removes)
	return out
}

func (d *Dag) NumWrites() int {
	d.mu.Lock()
	defer d.mu.Unlock()
	return len(d.writes)
}

// Gets returns a copy of the request log.
func (d *Dag) Gets() []cid.Cid {
	d.mu.Lock()
	defer d.mu.Unlock()
	out := make([]cid.Cid, len(d.gets))
	copy(out, d.gets)
	return out
}

func (d *Dag) ResetGets() {
	d.mu.Lock()
	defer d.mu.Unlock()
	d.gets = nil
}

func (d *Dag) Has(c cid.Cid) bool {
	d.mu.Lock()
	defer d.mu.Unlock()
	_, ok := d.blocks[c]
	return ok
}

// Raw returns the stored node (nil if absent), ignoring faults and gates.
func (d *Dag) Raw(c cid.Cid) format.Node {
	d.mu.Lock()
	defer d.mu.Unlock()
	return d.blocks[c]
}

// Put stores a node without recording it in the write log (used to plant blocks).
func (d *Dag) Put(n format.Node) {
	d.mu.Lock()
	defer d.mu.Unlock()
	d.blocks[n.Cid()] = n
}

// Prefix returns a fresh API holding what the first n writes of this store left behind (the state a
// crash right after the n-th write would leave): the writes, minus the blocks deleted before the
// n-th write - and, when n covers the whole write log, minus every deleted block (the current state).
func (d *Dag) Prefix(n int) *API {
	d.mu.Lock()
	defer d.mu.Unlock()
	a := New()
	ri := 0
	for i := 0; i < n && i < len(d.writes); i++ {
		for ; ri < len(d.removes) && d.removes[ri].After <= i; ri++ {
			delete(a.D.blocks, d.removes[ri].Cid)
		}
		a.D.blocks[d.writes[i].Cid] = d.writes[i].Node
		a.D.writes = append(a.D.writes, d.writes[i])
	}
	if n >= len(d.writes) {
		for ; ri < len(d.removes); ri++ {
			delete(a.D.blocks, d.removes[ri].Cid)
		}
	}
	return a
}

// Clone returns a fresh API with the same blocks (no faults, gates or logs).
func (d *Dag) Clone() *API {
	d.mu.Lock()
	defer d.mu.Unlock()
	a := New()
	for k, v := range d.blocks {
		a.D.blocks[k] = v
	}
	return a
}
