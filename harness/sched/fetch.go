// Package sched contains the schedulers that impose TLC-chosen interleavings
// on the real goroutines of go-ipfs-log.
//
// fetch.go: the fetch scheduler.  Controllable steps are exactly two of the
// model's (Fetcher.tla): FetchDone(h) = release the Dag().Get for h parked in
// the fake store's gate, and Process(h) = release worker h parked at the
// "fetched" hook (after processDone(), before muProcess.Lock()).  Everything
// else (main loop, wake-ups) runs freely; quiescence is computed exactly from
// hook events, never by sleeping.
package sched

import (
	"context"
	"fmt"
	"sync"
	"time"

	"berty.tech/go-ipfs-log/entry"
	"github.com/ipfs/go-cid"

	"verif/harness/fakeipfs"
)

// QItem / State mirror the st record of FetchOps.tla with model ids.
type QItem struct {
	P  int `json:"p"`
	ID int `json:"id"`
}

type CItem struct {
	ID   int    `json:"id"`
	Kind string `json:"kind"`
}

type State struct {
	Q     []QItem `json:"q"`
	Cache []CItem `json:"cache"`
	Res   []int   `json:"res"`
	MinC  int     `json:"minC"`
	MaxC  int     `json:"maxC"`
	Tip   int     `json:"tip"`
}

// Step is one event emitted under the process mutex (launch, processed) with
// the shared state before and after it.
type Step struct {
	Kind string `json:"kind"`
	H    int    `json:"h"`
	OK   bool   `json:"ok"`
	Pre  *State `json:"pre"`
	Post *State `json:"post"`
}

// Choice is one scheduler decision of a TLC behaviour: ["F",h] ["P",h] ["T"] (["L",h], ["W"] are not controllable).
type Choice struct {
	Kind string
	H    int
}

type workerState int

const (
	wSpawned    workerState = iota // launched, Get not yet called
	wAtGate                        // parked in Dag().Get
	wFetching                      // released from the gate, on its way to the fetched hook
	wAtFetched                     // parked at the fetched hook
	wProcessing                    // released, on its way through the locked block
	wDone
)

// FetchRun controls one execution of a loader.
type FetchRun struct {
	muted bool
	mu    sync.Mutex
	cond  *sync.Cond

	IDOf  func(cid.Cid) int // CID -> model id (0 = not an entry of the instance: never gated)
	CidOf func(int) cid.Cid
	Conc  int

	workers      map[int]workerState
	gate         map[int]chan struct{}
	fetched      map[int]chan struct{}
	fetchedOK    map[int]bool
	launched     int
	passedPD     int    // workers that passed processDone (reached the fetched hook)
	mainState    string // "running" | "acquire" | "wait" | "done"
	sigSince     bool   // a Signal (processed event) happened since main's last "wait"
	last         *State
	Steps        []Step
	Requests     []int // every Get for an entry of the instance, in call order
	maxConc      int
	curGets      int
	Slow         map[int]bool // ids whose Get never answers before the deadline
	Desc         bool         // default policy releases the largest parked id first (instead of the smallest)
	GatesFirst   bool         // default policy completes every outstanding fetch before letting any worker process
	cancelled    bool
	FreeRunLimit time.Duration
	freeRun      bool // no gating at all (used after a timeout and for free-running runs)
	Followed     bool
	Events       int
}

func NewFetchRun(idOf func(cid.Cid) int, cidOf func(int) cid.Cid, conc int) *FetchRun {
	r := &FetchRun{IDOf: idOf, CidOf: cidOf, Conc: conc, workers: map[int]workerState{}, gate: map[int]chan struct{}{},
		fetched: map[int]chan struct{}{}, fetchedOK: map[int]bool{}, mainState: "running", Followed: true}
	r.cond = sync.NewCond(&r.mu)
	return r
}

func kindName(k int) string {
	switch k {
	case 0:
		return "added"
	case 1:
		return "inprogress"
	default:
		return "done"
	}
}

func (r *FetchRun) snapshot(ev *entry.VerifFetchEvent, tipAdj int) *State {
	st := &State{Q: []QItem{}, Cache: []CItem{}, Res: []int{}, MinC: ev.MinClock, MaxC: ev.MaxClock, Tip: ev.TasksInProgress + tipAdj}
	for _, it := range ev.Queue {
		st.Q = append(st.Q, QItem{P: it.Index, ID: r.IDOf(it.Hash)})
	}
	for c, k := range ev.Tasks {
		st.Cache = append(st.Cache, CItem{ID: r.IDOf(c), Kind: kindName(k)})
	}
	for _, c := range ev.Results {
		st.Res = append(st.Res, r.IDOf(c))
	}
	return st
}

// Mute makes the hook ignore events (and never park anybody) until it is switched back.
func (r *FetchRun) Mute(on bool) {
	r.mu.Lock()
	r.muted = on
	r.mu.Unlock()
}

// Hook is installed as entry.VerifFetchHook for the duration of the run.
func (r *FetchRun) Hook(ev *entry.VerifFetchEvent) {
	r.mu.Lock()
	if r.muted {
		// a load that is not part of the schedule (the caller's earlier use of its options value)
		r.mu.Unlock()
		return
	}
	r.Events++
	switch ev.Kind {
	case "acquire":
		r.mainState = "acquire"
		if r.last == nil {
			r.last = r.snapshot(ev, 0) // the state after the start hashes were queued
		}
	case "launch":
		h := r.IDOf(ev.Hash)
		post := r.snapshot(ev, 1)
		r.Steps = append(r.Steps, Step{Kind: "launch", H: h, OK: true, Pre: r.last, Post: post})
		r.last = post
		r.workers[h] = wSpawned
		r.launched++
		r.mainState = "running"
	case "wait":
		r.mainState = "wait"
		r.sigSince = false
	case "woken":
		r.mainState = "running"
	case "done":
		r.mainState = "done"
	case "fetched":
		h := r.IDOf(ev.Hash)
		r.passedPD++
		r.fetchedOK[h] = ev.OK
		if r.freeRun {
			r.workers[h] = wProcessing
			r.cond.Broadcast()
			r.mu.Unlock()
			return
		}
		ch := make(chan struct{})
		r.fetched[h] = ch
		r.workers[h] = wAtFetched
		r.cond.Broadcast()
		r.mu.Unlock()
		<-ch
		return
	case "processed":
		h := r.IDOf(ev.Hash)
		post := r.snapshot(ev, 0)
		r.Steps = append(r.Steps, Step{Kind: "processed", H: h, OK: ev.OK, Pre: r.last, Post: post})
		r.last = post
		r.workers[h] = wDone
		r.sigSince = true
	}
	r.cond.Broadcast()
	r.mu.Unlock()
}

// Gate is installed in the fake store.
func (r *FetchRun) Gate(ctx context.Context, c cid.Cid, _ int) {
	h := r.IDOf(c)
	if h == 0 {
		return
	}
	r.mu.Lock()
	r.Requests = append(r.Requests, h)
	r.curGets++
	if r.curGets > r.maxConc {
		r.maxConc = r.curGets
	}
	defer func() {
		r.mu.Lock()
		r.curGets--
		r.mu.Unlock()
	}()
	if r.freeRun {
		r.workers[h] = wFetching
		r.cond.Broadcast()
		r.mu.Unlock()
		return
	}
	ch := make(chan struct{})
	r.gate[h] = ch
	r.workers[h] = wAtGate
	r.cond.Broadcast()
	r.mu.Unlock()
	select {
	case <-ch:
	case <-ctx.Done():
		r.mu.Lock()
		if r.workers[h] == wAtGate {
			delete(r.gate, h)
			r.workers[h] = wFetching
			r.cond.Broadcast()
		}
		r.mu.Unlock()
	}
}

func (r *FetchRun) MaxConcurrentGets() int {
	r.mu.Lock()
	defer r.mu.Unlock()
	return r.maxConc
}

// quiescentLocked: nothing can move without the scheduler releasing something.
func (r *FetchRun) mainHoldsMutexBlocked() bool {
	return r.mainState == "acquire" && r.launched-r.passedPD >= r.Conc
}

func (r *FetchRun) quiescentLocked(finished bool) bool {
	if finished {
		return true
	}
	for h, w := range r.workers {
		if w == wProcessing && r.mainHoldsMutexBlocked() {
			continue // waits in muProcess.Lock() for as long as main sits in sem.Acquire
		}
		if w == wFetching && r.Slow[h] && !r.cancelled {
			continue // blocked inside the store until the deadline fires
		}
		if w == wSpawned || w == wFetching || w == wProcessing {
			return false
		}
	}
	switch r.mainState {
	case "done":
		return true
	case "wait":
		return !r.sigSince
	case "acquire":
		return r.launched-r.passedPD >= r.Conc
	}
	return false
}

// Drive runs the schedule.  start launches the loader (it must return when the loader returns);
// cancel fires the deadline.  It returns hung=true when the loader cannot make progress although
// nothing is left to release.
func (r *FetchRun) Drive(api *fakeipfs.API, schedule []Choice, start func(), cancel func()) (hung bool, err error) {
	entry.VerifFetchHook = r.Hook
	api.D.SetGate(r.Gate)
	defer func() {
		entry.VerifFetchHook = nil
		api.D.SetGate(nil)
	}()
	finished := false
	go func() {
		start()
		r.mu.Lock()
		finished = true
		r.cond.Broadcast()
		r.mu.Unlock()
	}()
	// watchdog wakes the condition variable periodically so that waits can time out
	stopWD := make(chan struct{})
	defer close(stopWD)
	go func() {
		t := time.NewTicker(50 * time.Millisecond)
		defer t.Stop()
		for {
			select {
			case <-stopWD:
				return
			case <-t.C:
				r.mu.Lock()
				r.cond.Broadcast()
				r.mu.Unlock()
			}
		}
	}()
	errStalled := fmt.Errorf("stalled")
	waitQuiet := func() error {
		deadline := time.Now().Add(20 * time.Second)
		lastEvents, lastChange := r.Events, time.Now()
		for !r.quiescentLocked(finished) {
			if r.Events != lastEvents {
				lastEvents, lastChange = r.Events, time.Now()
			}
			// no hook event and no gate arrival for 2 s although the bookkeeping says somebody should
			// move: the code no longer follows the slot / lock discipline the bookkeeping assumes
			if time.Since(lastChange) > 2*time.Second {
				return errStalled
			}
			if time.Now().After(deadline) {
				return fmt.Errorf("no quiescence within 20s: main=%s workers=%v launched=%d passedPD=%d", r.mainState, r.workers, r.launched, r.passedPD)
			}
			r.cond.Wait()
		}
		return nil
	}
	// stalled: let everything parked go, give the loader 3 s, then decide from the goroutine dump whether
	// every fetcher goroutine is blocked on a lock / condition variable / semaphore (a deadlock)
	resolveStall := func() (bool, error) {
		r.freeRun = true
		for h, ch := range r.gate {
			delete(r.gate, h)
			close(ch)
		}
		for h, ch := range r.fetched {
			delete(r.fetched, h)
			close(ch)
		}
		// up to 60 s as long as some fetcher goroutine is still runnable (a loaded machine), 3 s once all are blocked
		start := time.Now()
		for !finished && time.Since(start) < 60*time.Second {
			if time.Since(start) > 3*time.Second && fetcherGoroutinesAllBlocked() {
				break
			}
			r.cond.Wait()
		}
		if finished {
			r.Followed = false
			return false, nil
		}
		if fetcherGoroutinesAllBlocked() {
			return true, nil
		}
		return false, fmt.Errorf("stalled without a confirmed deadlock: main=%s workers=%v", r.mainState, r.workers)
	}
	r.mu.Lock()
	defer r.mu.Unlock()
	if r.freeRun {
		// no gating: only wait for the loader to return (it has its own deadline)
		deadline := time.Now().Add(r.FreeRunLimit)
		for !finished && time.Now().Before(deadline) {
			r.cond.Wait()
		}
		return !finished, nil
	}
	release := func(c Choice) bool {
		switch c.Kind {
		case "F":
			if ch, ok := r.gate[c.H]; ok {
				delete(r.gate, c.H)
				r.workers[c.H] = wFetching
				close(ch)
				return true
			}
		case "P":
			if r.mainHoldsMutexBlocked() {
				return false // the worker could only queue up on the mutex main holds; not a step of the model
			}
			if ch, ok := r.fetched[c.H]; ok {
				delete(r.fetched, c.H)
				r.workers[c.H] = wProcessing
				close(ch)
				return true
			}
		case "T":
			if cancel != nil && !r.cancelled {
				// after the deadline parked Gets return by themselves
				r.cancelled = true
				r.mu.Unlock()
				cancel()
				r.mu.Lock()
				return true
			}
		}
		return false
	}
	if err := waitQuiet(); err != nil {
		if err == errStalled {
			return resolveStall()
		}
		return false, err
	}
	for _, c := range schedule {
		if finished {
			break
		}
		if c.Kind == "L" || c.Kind == "W" {
			continue
		}
		if c.Kind == "DESC" {
			r.Desc = true
			continue
		}
		if c.Kind == "GATESFIRST" {
			r.GatesFirst = true
			continue
		}
		if !release(c) {
			r.Followed = false
			continue
		}
		if err := waitQuiet(); err != nil {
			if err == errStalled {
				return resolveStall()
			}
			return false, err
		}
	}
	// default policy: smallest parked item first, fetched before gate
	for !finished {
		var pick *Choice
		if r.GatesFirst && len(r.gate) > 0 {
			for h := range r.gate {
				if r.Slow[h] && !r.cancelled {
					continue
				}
				if pick == nil || (h < pick.H) != r.Desc {
					pick = &Choice{Kind: "F", H: h}
				}
			}
		}
		if pick == nil && !r.mainHoldsMutexBlocked() {
			for h := range r.fetched {
				if pick == nil || pick.Kind != "P" || (h < pick.H) != r.Desc {
					pick = &Choice{Kind: "P", H: h}
				}
			}
		}
		if pick == nil {
			for h := range r.gate {
				if pick == nil || (h < pick.H) != r.Desc {
					pick = &Choice{Kind: "F", H: h}
				}
			}
		}
		if pick == nil && !r.cancelled && cancel != nil {
			// only requests that will never answer are left: let the deadline fire
			stuck := false
			for h, w := range r.workers {
				if w == wFetching && r.Slow[h] {
					stuck = true
				}
			}
			if stuck {
				pick = &Choice{Kind: "T"}
			}
		}
		if pick == nil {
			// quiescent, nothing to release, loader still running: it is stuck.  Give it a
			// grace period (two orders of magnitude above normal latency) before calling it a hang.
			deadline := time.Now().Add(3 * time.Second)
			for !finished && len(r.gate) == 0 && len(r.fetched) == 0 && time.Now().Before(deadline) {
				r.cond.Wait()
			}
			if finished {
				break
			}
			if len(r.gate) == 0 && len(r.fetched) == 0 {
				if !fetcherGoroutinesAllBlocked() {
					continue // somebody is still runnable: slow, not hung
				}
				r.freeRun = true
				return true, nil
			}
			continue
		}
		release(*pick)
		if err := waitQuiet(); err != nil {
			if err == errStalled {
				return resolveStall()
			}
			return false, err
		}
	}
	return false, nil
}

// fetcherGoroutinesAllBlocked: every goroutine inside the library's fetcher is waiting, none running.
func fetcherGoroutinesAllBlocked() bool {
	return LibraryGoroutinesAllBlocked("go-ipfs-log/entry.(*Fetcher)")
}

// SetFree disables all gating: the loader runs on its own (real-time deadline runs).
func (r *FetchRun) SetFree(limit time.Duration) {
	r.mu.Lock()
	r.freeRun = true
	r.FreeRunLimit = limit
	r.mu.Unlock()
}

// Abort lets everything still parked go (used after a hang verdict so that goroutines do not leak forever).
func (r *FetchRun) Abort() {
	r.mu.Lock()
	defer r.mu.Unlock()
	r.freeRun = true
	for h, ch := range r.gate {
		delete(r.gate, h)
		close(ch)
	}
	for h, ch := range r.fetched {
		delete(r.fetched, h)
		close(ch)
	}
}
