package sched

// lock.go: the lock scheduler (family K).  Every goroutine of a scenario runs one
// public call of IPFSLog; at each verif yield point (entry of a public
// operation, Join's point before it locks the destination) it reports
// (goroutine, point) and blocks until released.  A schedule is a sequence of
// goroutine indices: "release g and let it run to its next yield point or to
// the end of its call".  A goroutine that neither parks nor finishes within
// the step timeout is recorded as blocked (it waits for a lock somebody holds
// across a yield point); if at the end some goroutines can never finish, the
// scenario deadlocked.

import (
	"bytes"
	"runtime"
	"strconv"
	"strings"
	"sync"
	"time"

	ipfslog "berty.tech/go-ipfs-log"
)

func curGID() int64 {
	var buf [64]byte
	n := runtime.Stack(buf[:], false)
	// "goroutine 123 [running]:"
	f := bytes.Fields(buf[:n])
	if len(f) < 2 {
		return -1
	}
	id, err := strconv.ParseInt(string(f[1]), 10, 64)
	if err != nil {
		return -1
	}
	return id
}

type procState int

const (
	pRunning procState = iota
	pParked
	pFinished
)

// StepOutcome says how a released goroutine came to rest.
type StepOutcome struct {
	G        int    `json:"g"`
	From     string `json:"from"`     // the yield point it was released from
	To       string `json:"to"`       // the yield point it parked at next ("" if it finished or blocked)
	Finished bool   `json:"finished"` // its call returned
	Blocked  bool   `json:"blocked"`  // neither within the step timeout
}

type LockRun struct {
	mu       sync.Mutex
	cond     *sync.Cond
	gids     map[int64]int // goroutine id -> proc index (1-based)
	state    map[int]procState
	point    map[int]string
	release  map[int]chan struct{}
	StepWait time.Duration
}

func NewLockRun() *LockRun {
	r := &LockRun{gids: map[int64]int{}, state: map[int]procState{}, point: map[int]string{}, release: map[int]chan struct{}{},
		StepWait: 400 * time.Millisecond}
	r.cond = sync.NewCond(&r.mu)
	return r
}

// Hook is installed as ipfslog.VerifYieldHook.
func (r *LockRun) Hook(_ *ipfslog.IPFSLog, point string) {
	gid := curGID()
	r.mu.Lock()
	g, ok := r.gids[gid]
	if !ok {
		r.mu.Unlock()
		return // not a goroutine of the scenario (observer, library worker)
	}
	ch := make(chan struct{})
	r.release[g] = ch
	r.point[g] = point
	r.state[g] = pParked
	r.cond.Broadcast()
	r.mu.Unlock()
	<-ch
}

// Go starts proc g (1-based) running fn; it parks at its first yield point.
func (r *LockRun) Go(g int, fn func()) {
	r.mu.Lock()
	r.state[g] = pRunning
	r.mu.Unlock()
	go func() {
		r.mu.Lock()
		r.gids[curGID()] = g
		r.mu.Unlock()
		fn()
		r.mu.Lock()
		r.state[g] = pFinished
		r.point[g] = ""
		r.cond.Broadcast()
		r.mu.Unlock()
	}()
}

// waitRest waits until g is parked or finished, or the timeout passes.
func (r *LockRun) waitRestLocked(g int, d time.Duration) bool {
	deadline := time.Now().Add(d)
	for r.state[g] == pRunning {
		if time.Now().After(deadline) {
			return false
		}
		r.cond.Wait()
	}
	return true
}

// Settle waits for every started goroutine to reach its first yield point (or finish).
func (r *LockRun) Settle(n int) {
	stop := r.ticker()
	defer close(stop)
	r.mu.Lock()
	defer r.mu.Unlock()
	for g := 1; g <= n; g++ {
		r.waitRestLocked(g, 5*time.Second)
	}
}

func (r *LockRun) ticker() chan struct{} {
	stop := make(chan struct{})
	go func() {
		t := time.NewTicker(20 * time.Millisecond)
		defer t.Stop()
		for {
			select {
			case <-stop:
				return
			case <-t.C:
				r.mu.Lock()
				r.cond.Broadcast()
				r.mu.Unlock()
			}
		}
	}()
	return stop
}

// Step releases g from its yield point and waits for it to rest again.
// ok=false when g is not parked (finished, or still blocked from an earlier step).
func (r *LockRun) Step(g int) (StepOutcome, bool) {
	stop := r.ticker()
	defer close(stop)
	r.mu.Lock()
	defer r.mu.Unlock()
	if r.state[g] != pParked {
		return StepOutcome{G: g}, false
	}
	out := StepOutcome{G: g, From: r.point[g]}
	ch := r.release[g]
	delete(r.release, g)
	r.state[g] = pRunning
	close(ch)
	if !r.waitRestLocked(g, r.StepWait) {
		out.Blocked = true
		return out, true
	}
	out.Finished = r.state[g] == pFinished
	out.To = r.point[g]
	return out, true
}

// Parked returns the goroutines currently parked at a yield point.
func (r *LockRun) Parked() []int {
	r.mu.Lock()
	defer r.mu.Unlock()
	var out []int
	for g, s := range r.state {
		if s == pParked {
			out = append(out, g)
		}
	}
	return out
}

// Unfinished returns the goroutines whose call has not returned.
func (r *LockRun) Unfinished() []int {
	r.mu.Lock()
	defer r.mu.Unlock()
	var out []int
	for g, s := range r.state {
		if s != pFinished {
			out = append(out, g)
		}
	}
	return out
}

// WaitAll gives running goroutines the chance to finish.  After d it looks at the goroutine dump: as long as
// some goroutine inside the library is not blocked on a lock (it is merely slow, e.g. on a loaded machine) it
// keeps waiting, up to 60 s; it returns early once every one of them is blocked (a deadlock) or all have finished.
func (r *LockRun) WaitAll(n int, d time.Duration) {
	stop := r.ticker()
	defer close(stop)
	r.mu.Lock()
	defer r.mu.Unlock()
	start := time.Now()
	nextLook := start.Add(d)
	for {
		busy := false
		for g := 1; g <= n; g++ {
			if r.state[g] == pRunning {
				busy = true
			}
		}
		if !busy || time.Since(start) > 60*time.Second {
			return
		}
		if time.Now().After(nextLook) {
			if LibraryGoroutinesAllBlocked("berty.tech/go-ipfs-log.(*IPFSLog)") {
				return
			}
			nextLook = time.Now().Add(d)
		}
		r.cond.Wait()
	}
}

// LibraryGoroutinesAllBlocked inspects the goroutine dump: every goroutine with a frame matching pattern must be
// waiting on a lock / semaphore / condition variable / channel; none running or runnable.
func LibraryGoroutinesAllBlocked(pattern string) bool {
	dump := Stacks()
	found := false
	for _, g := range strings.Split(dump, "\n\n") {
		if !strings.Contains(g, pattern) {
			continue
		}
		found = true
		head := g
		if i := strings.Index(g, "\n"); i > 0 {
			head = g[:i]
		}
		blocked := false
		for _, st := range []string{"semacquire", "sync.Cond.Wait", "sync.Mutex.Lock", "sync.RWMutex", "chan receive", "select", "sync.WaitGroup"} {
			if strings.Contains(head, st) {
				blocked = true
			}
		}
		if !blocked {
			return false
		}
	}
	return found
}

// Stacks returns the stack dump of all goroutines (deadlock confirmation).
func Stacks() string {
	buf := make([]byte, 1<<20)
	n := runtime.Stack(buf, true)
	return string(buf[:n])
}
