// Package world holds what every driver shares: deterministic identities with
// a known key order, the CID -> small-integer registry (the model's entry
// universe U), entry digests, and the projection of a real IPFSLog onto the
// abstract state the TLA+ specification talks about.
package world

import (
	"bytes"
	"context"
	"crypto/sha256"
	"encoding/binary"
	"encoding/hex"
	"fmt"
	"math/rand"
	"sort"
	"strconv"
	"strings"
	"sync"

	ipfslog "berty.tech/go-ipfs-log"
	"berty.tech/go-ipfs-log/accesscontroller"
	"berty.tech/go-ipfs-log/enc"
	"berty.tech/go-ipfs-log/entry"
	"berty.tech/go-ipfs-log/entry/sorting"
	idp "berty.tech/go-ipfs-log/identityprovider"
	"berty.tech/go-ipfs-log/iface"
	"berty.tech/go-ipfs-log/io/cbor"
	"berty.tech/go-ipfs-log/io/pb"
	ks "berty.tech/go-ipfs-log/keystore"
	"github.com/ipfs/go-cid"
	ds "github.com/ipfs/go-datastore"
	dssync "github.com/ipfs/go-datastore/sync"
	"github.com/libp2p/go-libp2p/core/crypto"
)

// ---------------------------------------------------------------------------
// identities

// Pool is a set of identities whose signing keys are a function of the seed and
// which are named by the rank of their public key bytes (bytes.Compare order):
// Pool.W(1) has the smallest clock id, Pool.W(2) the next one, ...
type Pool struct {
	Keystore *ks.Keystore
	Store    ds.Datastore
	ids      []*idp.Identity
}

func putSeededKey(ctx context.Context, store ds.Datastore, id string, rnd *rand.Rand) (crypto.PrivKey, error) {
	// libp2p's GenerateSecp256k1Key ignores its reader, so derive the scalar ourselves:
	// 32 seeded bytes are a valid secp256k1 private key with overwhelming probability
	for {
		raw := make([]byte, 32)
		rnd.Read(raw)
		priv, err := crypto.UnmarshalSecp256k1PrivateKey(raw)
		if err != nil {
			continue
		}
		if err := store.Put(ctx, ds.NewKey(id), raw); err != nil {
			return nil, err
		}
		return priv, nil
	}
}

// NewPool creates n identities deterministically from seed.
func NewPool(ctx context.Context, n int, seed int64) (*Pool, error) {
	store := dssync.MutexWrap(ds.NewMapDatastore())
	keystore, err := ks.NewKeystore(store)
	if err != nil {
		return nil, err
	}
	rnd := rand.New(rand.NewSource(seed*7919 + 17))
	p := &Pool{Keystore: keystore, Store: store}
	for i := 0; i < n; i++ {
		name := fmt.Sprintf("verif-user-%d", i)
		k1, err := putSeededKey(ctx, store, name, rnd)
		if err != nil {
			return nil, err
		}
		pubRaw, err := k1.GetPublic().Raw()
		if err != nil {
			return nil, err
		}
		if _, err := putSeededKey(ctx, store, hex.EncodeToString(pubRaw), rnd); err != nil {
			return nil, err
		}
		id, err := idp.CreateIdentity(ctx, &idp.CreateIdentityOptions{Keystore: keystore, ID: name, Type: "orbitdb"})
		if err != nil {
			return nil, err
		}
		p.ids = append(p.ids, id)
	}
	sort.Slice(p.ids, func(a, b int) bool { return bytes.Compare(p.ids[a].PublicKey, p.ids[b].PublicKey) < 0 })
	return p, nil
}

// W returns the identity with key rank w (1-based).
func (p *Pool) W(w int) *idp.Identity { return p.ids[w-1] }
func (p *Pool) N() int                { return len(p.ids) }

// RankOfKey returns the writer rank of a clock id / public key, 0 if unknown.
func (p *Pool) RankOfKey(key []byte) int {
	for i, id := range p.ids {
		if bytes.Equal(id.PublicKey, key) {
			return i + 1
		}
	}
	return 0
}

// ---------------------------------------------------------------------------
// access control

// DenyWriters denies every entry whose identity is one of the given writers.
type DenyWriters struct {
	Pool   *Pool
	Denied map[int]bool
}

func (d *DenyWriters) CanAppend(e accesscontroller.LogEntry, _ idp.Interface, _ accesscontroller.CanAppendAdditionalContext) error {
	id := e.GetIdentity()
	if id == nil {
		return fmt.Errorf("denied: no identity")
	}
	if d.Denied[d.Pool.RankOfKey(id.PublicKey)] {
		return fmt.Errorf("denied")
	}
	return nil
}

// ---------------------------------------------------------------------------
// comparators and codecs

func SortFn(name string) iface.EntrySortFn {
	switch name {
	case "FWW":
		return sorting.FirstWriteWins
	case "HASH":
		return sorting.SortByEntryHash
	default:
		return nil // NewLog's default: LastWriteWins
	}
}

// Codec returns the IO for a codec name: "cbor", "cbor+lk1", "cbor+lk2", "pb".
func Codec(name string) (iface.IO, error) {
	base, err := cbor.IO(&entry.Entry{}, &entry.LamportClock{})
	if err != nil {
		return nil, err
	}
	switch name {
	case "", "cbor":
		return base, nil
	case "cbor+lk1", "cbor+lk2":
		key := bytes.Repeat([]byte{0x11}, enc.SecretBoxKeySize)
		if name == "cbor+lk2" {
			key = bytes.Repeat([]byte{0x22}, enc.SecretBoxKeySize)
		}
		sk, err := enc.NewSecretbox(key)
		if err != nil {
			return nil, err
		}
		// the caller scrubs its copy of the key material once the key object exists (the key object keeps its own)
		for i := range key {
			key[i] = 0
		}
		return base.ApplyOptions(&cbor.Options{LinkKey: sk}), nil
	case "pb":
		return pb.IO(&entry.Entry{}, &entry.LamportClock{})
	}
	return nil, fmt.Errorf("unknown codec %q", name)
}

// ---------------------------------------------------------------------------
// the entry universe

// EntryRec is one element of U as the TLA+ modules see it.
type EntryRec struct {
	W       int    `json:"w"`
	T       int    `json:"t"`
	Next    []int  `json:"next"`
	Refs    []int  `json:"refs"`
	H       int    `json:"h"`
	Lid     string `json:"lid"`
	NilKeys int    `json:"nilkeys"` // keys the entry index lists without holding an entry for them
	V       int    `json:"v"`
	Seen    bool   `json:"seen"` // false: a CID that was referenced but whose entry was never observed
}

// Registry maps CID strings to small integers (first sight order) and digests
// to small integers, across all executions of one process.
type Registry struct {
	// Base is subtracted from every clock time before it is written to a trace: a run whose logs start at a large
	// clock (LogOptions.Clock) is the translation of a run starting at 0, and the checker's integers are 32-bit
	Base  int
	mu    sync.Mutex
	pool  *Pool
	ids   map[string]int
	cids  []string
	recs  []*EntryRec
	digs  map[string]int
	ndigs int
	orig  map[int]int // entry id -> digest id at first observation (the genuine object)
}

func NewRegistry(pool *Pool) *Registry {
	return &Registry{pool: pool, ids: map[string]int{}, digs: map[string]int{}, orig: map[int]int{}}
}

func (g *Registry) idLocked(c string) int {
	if id, ok := g.ids[c]; ok {
		return id
	}
	g.cids = append(g.cids, c)
	g.recs = append(g.recs, &EntryRec{Next: []int{}, Refs: []int{}})
	g.ids[c] = len(g.cids)
	return len(g.cids)
}

// ID returns the id of a CID, allocating one if needed.
func (g *Registry) ID(c cid.Cid) int {
	g.mu.Lock()
	defer g.mu.Unlock()
	return g.idLocked(c.String())
}

func (g *Registry) IDs(cs []cid.Cid) []int {
	out := make([]int, len(cs))
	for i, c := range cs {
		out[i] = g.ID(c)
	}
	return out
}

// Observe registers the attributes of an entry object the first time its CID
// is seen with content; later sightings do not change the record (differences
// in content show up in digests).  The digest of the first object seen through
// the log API (not through ObserveMeta) is remembered as the genuine one.
func (g *Registry) Observe(e iface.IPFSLogEntry) int { return g.observe(e, true) }

// ObserveMeta registers the attributes only (used for blocks decoded from the store).
func (g *Registry) ObserveMeta(e iface.IPFSLogEntry) int { return g.observe(e, false) }

func (g *Registry) observe(e iface.IPFSLogEntry, genuine bool) int {
	g.mu.Lock()
	defer g.mu.Unlock()
	id := g.idLocked(e.GetHash().String())
	rec := g.recs[id-1]
	if genuine {
		if _, ok := g.orig[id]; !ok {
			d := LogicalDigest(e)
			if did, ok := g.digs[d]; ok {
				g.orig[id] = did
			} else {
				g.ndigs++
				g.digs[d] = g.ndigs
				g.orig[id] = g.ndigs
			}
		}
	}
	if rec.Seen {
		return id
	}
	rec.Seen = true
	if clk := e.GetClock(); clk != nil {
		rec.W = g.pool.RankOfKey(clk.GetID())
		rec.T = clk.GetTime() - g.Base
	}
	rec.Lid = e.GetLogID()
	rec.V = int(e.GetV())
	rec.Next = make([]int, 0, len(e.GetNext()))
	for _, n := range e.GetNext() {
		rec.Next = append(rec.Next, g.idLocked(n.String()))
	}
	rec.Refs = make([]int, 0, len(e.GetRefs()))
	for _, n := range e.GetRefs() {
		rec.Refs = append(rec.Refs, g.idLocked(n.String()))
	}
	return id
}

// Known reports whether the CID already has an id.
func (g *Registry) Known(c cid.Cid) bool {
	g.mu.Lock()
	defer g.mu.Unlock()
	_, ok := g.ids[c.String()]
	return ok
}

func (g *Registry) Cid(id int) string {
	g.mu.Lock()
	defer g.mu.Unlock()
	return g.cids[id-1]
}

// OrigDig returns the digest id the entry had when first observed (0 if never).
func (g *Registry) OrigDig(id int) int {
	g.mu.Lock()
	defer g.mu.Unlock()
	return g.orig[id]
}

// DigID maps a digest string to a small integer.
func (g *Registry) DigID(d string) int {
	g.mu.Lock()
	defer g.mu.Unlock()
	if id, ok := g.digs[d]; ok {
		return id
	}
	g.ndigs++
	g.digs[d] = g.ndigs
	return g.ndigs
}

// Universe returns U with hash ranks filled in (rank of the CID string among
// all registered CID strings, strings.Compare order).
func (g *Registry) Universe() []EntryRec {
	g.mu.Lock()
	defer g.mu.Unlock()
	order := make([]int, len(g.cids))
	for i := range order {
		order[i] = i
	}
	sort.Slice(order, func(a, b int) bool { return g.cids[order[a]] < g.cids[order[b]] })
	out := make([]EntryRec, len(g.cids))
	for rank, idx := range order {
		out[idx] = *g.recs[idx]
		out[idx].H = rank + 1
	}
	return out
}

func (g *Registry) Size() int {
	g.mu.Lock()
	defer g.mu.Unlock()
	return len(g.cids)
}

// Digest hashes everything observable about an entry object.
func Digest(e iface.IPFSLogEntry) string { return digest(e, true) }

// LogicalDigest covers every field but the additional data: with a link-sealing codec the writer's
// object carries the sealed form of its links there, a copy decoded from the store does not (its links
// are decrypted into next/refs), although both are the same entry.  Used wherever objects held by
// DIFFERENT logs are compared; the full digest is used to compare one object with itself over time.
func LogicalDigest(e iface.IPFSLogEntry) string { return digest(e, false) }

func digest(e iface.IPFSLogEntry, withAdditional bool) string {
	if e == nil || !e.Defined() {
		return "nil"
	}
	h := sha256.New()
	w := func(b []byte) {
		var l [8]byte
		binary.BigEndian.PutUint64(l[:], uint64(len(b)))
		h.Write(l[:])
		h.Write(b)
	}
	w(e.GetPayload())
	w([]byte(e.GetLogID()))
	for _, n := range e.GetNext() {
		w([]byte(n.String()))
	}
	w([]byte("|"))
	for _, n := range e.GetRefs() {
		w([]byte(n.String()))
	}
	w([]byte(fmt.Sprintf("v%d", e.GetV())))
	w(e.GetKey())
	w(e.GetSig())
	w([]byte(e.GetHash().String()))
	if c := e.GetClock(); c != nil {
		w(c.GetID())
		w([]byte(fmt.Sprintf("t%d", c.GetTime())))
	} else {
		w([]byte("noclock"))
	}
	if id := e.GetIdentity(); id != nil {
		w([]byte(id.ID))
		w(id.PublicKey)
		w([]byte(id.Type))
		if id.Signatures != nil {
			w(id.Signatures.ID)
			w(id.Signatures.PublicKey)
		}
	} else {
		w([]byte("noident"))
	}
	if !withAdditional {
		w([]byte("logical"))
		return hex.EncodeToString(h.Sum(nil)[:12])
	}
	ad := e.GetAdditionalData()
	keys := make([]string, 0, len(ad))
	for k := range ad {
		keys = append(keys, k)
	}
	sort.Strings(keys)
	for _, k := range keys {
		w([]byte(k))
		w([]byte(ad[k]))
	}
	return hex.EncodeToString(h.Sum(nil)[:12])
}

// ---------------------------------------------------------------------------
// projection of a log onto the abstract state

// RepState is what the trace modules call the observed state of a replica.
type RepState struct {
	Ents       []int    `json:"ents"`       // GetEntries() key order
	Heads      []int    `json:"heads"`      // Heads() (sorted)
	RawHeads   []int    `json:"rawheads"`   // RawHeads() key order
	SnapHeads  []int    `json:"snapheads"`  // ToSnapshot().Heads
	JSONHeads  []int    `json:"jsonheads"`  // ToJSONLog().Heads
	Values     []int    `json:"values"`     // Values() key order
	SnapValues []int    `json:"snapvalues"` // ToSnapshot().Values
	Nidx       []int    `json:"nidx"`       // keys of the reverse index
	Clk        int      `json:"clk"`
	ClkW       int      `json:"clkw"`
	Len        int      `json:"len"`
	Digs       []int    `json:"digs"`    // digest ids aligned with Ents (objects held in the index)
	GetDigs    []int    `json:"getdigs"` // digest ids of Get(hash) for every entry of Ents
	VDigs      []int    `json:"vdigs"`   // digest ids aligned with Values
	Ident      int      `json:"ident"`
	Pure       bool     `json:"pure"`
	Lid        string   `json:"lid"`
	NilKeys    int      `json:"nilkeys"`  // keys the entry index lists without holding an entry for them
	Bad        []BadRec `json:"bad"`      // tampered copies this replica holds (ground truth from the script)
	LDigs      []int    `json:"ldigs"`    // logical digest ids (all fields but the additional data) aligned with Ents
	OrigDigs   []int    `json:"origdigs"` // logical digest id each entry of Ents had when it was first observed
	OwnPure    bool     `json:"ownpure"`  // ground truth: this log itself only ever appended and merged without bound (from whatever source)
	Mixed      bool     `json:"mixed"`    // ground truth: this log was built (NewLog with entries) on the entries of a log with another id
	StrIDs     []int    `json:"strids"`   // ToString(): the entry of each line ...
	StrDepth   []int    `json:"strdepth"` // ... and its indentation depth (number of entries FindChildren returned)
}

// BadRec names one tampered copy.
type BadRec struct {
	ID   int    `json:"id"`
	Kind string `json:"kind"`
}

func keysToIDs(g *Registry, om iface.IPFSLogOrderedEntries) []int {
	out := []int{}
	if om == nil {
		return out
	}
	for _, e := range om.Slice() {
		if e == nil || !e.Defined() {
			continue // counted by Project as NilKeys
		}
		out = append(out, g.Observe(e))
	}
	return out
}

// Project reads the state of l through its public accessors only (plus the
// exported fields Clock / Next, which have no accessor).
func Project(g *Registry, pool *Pool, l *ipfslog.IPFSLog, pure bool) RepState {
	st := RepState{Pure: pure, Lid: l.GetID(), Bad: []BadRec{}}
	entries := l.GetEntries()
	st.Ents = keysToIDs(g, entries)
	st.Heads = keysToIDs(g, l.Heads())
	st.RawHeads = keysToIDs(g, l.RawHeads())
	snap := l.ToSnapshot()
	st.SnapHeads = []int{}
	for _, c := range snap.Heads {
		st.SnapHeads = append(st.SnapHeads, g.ID(c))
	}
	st.JSONHeads = []int{}
	for _, c := range l.ToJSONLog().Heads {
		st.JSONHeads = append(st.JSONHeads, g.ID(c))
	}
	vals := l.Values()
	st.Values = keysToIDs(g, vals)
	st.SnapValues = []int{}
	for _, e := range snap.Values {
		st.SnapValues = append(st.SnapValues, g.Observe(e))
	}
	st.Nidx = []int{}
	for _, k := range l.Next.Keys() {
		c, err := cid.Decode(k)
		if err != nil {
			st.Nidx = append(st.Nidx, 0)
			continue
		}
		st.Nidx = append(st.Nidx, g.ID(c))
	}
	sort.Ints(st.Nidx)
	st.Clk = l.Clock.GetTime() - g.Base
	st.ClkW = pool.RankOfKey(l.Clock.GetID())
	st.Len = l.Len()
	st.Digs = []int{}
	st.LDigs = []int{}
	st.GetDigs = []int{}
	for _, e := range entries.Slice() {
		if e == nil || !e.Defined() {
			// the index lists a key it has no entry for
			st.NilKeys++
			continue
		}
		st.Digs = append(st.Digs, g.DigID(Digest(e)))
		st.LDigs = append(st.LDigs, g.DigID(LogicalDigest(e)))
		got, ok := l.Get(e.GetHash())
		if !ok {
			st.GetDigs = append(st.GetDigs, 0)
		} else {
			st.GetDigs = append(st.GetDigs, g.DigID(Digest(got)))
		}
	}
	st.OrigDigs = []int{}
	for _, id := range st.Ents {
		st.OrigDigs = append(st.OrigDigs, g.OrigDig(id))
	}
	st.VDigs = []int{}
	for _, e := range vals.Slice() {
		if e == nil || !e.Defined() {
			continue
		}
		st.VDigs = append(st.VDigs, g.DigID(Digest(e)))
	}
	if l.Identity != nil {
		st.Ident = pool.RankOfKey(l.Identity.PublicKey)
	}
	st.StrIDs, st.StrDepth = projectToString(g, l)
	return st
}

// projectToString renders the log with ToString (each payload replaced by the entry's id) and parses the
// lines back into (id, depth): a line is 2*(depth-1) spaces, then the corner, then the payload; depth 0 has neither.
func projectToString(g *Registry, l *ipfslog.IPFSLog) ([]int, []int) {
	ids, depths := []int{}, []int{}
	if l.Len() == 0 {
		return ids, depths
	}
	out := l.ToString(func(e iface.IPFSLogEntry) string { return fmt.Sprintf("#%d", g.ID(e.GetHash())) })
	if out == "" {
		return ids, depths
	}
	for _, line := range strings.Split(out, "\n") {
		i := strings.Index(line, "#")
		if i < 0 {
			ids, depths = append(ids, 0), append(depths, -1)
			continue
		}
		id, _ := strconv.Atoi(line[i+1:])
		pad := line[:i]
		depth := 0
		if strings.HasSuffix(pad, "└─") {
			depth = strings.Count(strings.TrimSuffix(pad, "└─"), "  ") + 1
		} else if pad != "" {
			depth = -1
		}
		ids, depths = append(ids, id), append(depths, depth)
	}
	return ids, depths
}
