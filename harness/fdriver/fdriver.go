// Package fdriver builds stored logs ("shapes") by running family-L scripts on
// the real code, and runs the real loaders / fetcher over them under the fetch
// scheduler, with faults injected in the fake store.
package fdriver

import (
	"context"
	"encoding/hex"
	"encoding/json"
	"fmt"
	"sort"
	"strings"
	"time"

	ipfslog "berty.tech/go-ipfs-log"
	"berty.tech/go-ipfs-log/entry"
	"berty.tech/go-ipfs-log/iface"
	"github.com/ipfs/go-cid"
	cbornode "github.com/ipfs/go-ipld-cbor"
	mh "github.com/multiformats/go-multihash"

	"verif/harness/fakeipfs"
	"verif/harness/ldriver"
	"verif/harness/sched"
	"verif/harness/world"
)

// ModelEntry is one element of the instance's D (ids = creation order within the shape).
type ModelEntry struct {
	W    int    `json:"w"`
	T    int    `json:"t"`
	Next []int  `json:"next"`
	Refs []int  `json:"refs"`
	H    int    `json:"h"`
	Lid  string `json:"lid"`
}

// RepInfo is what a replica of the shape looks like in model ids.
type RepInfo struct {
	Ents      []int  `json:"ents"`
	Heads     []int  `json:"heads"`     // ToJSONLog().Heads order (= manifest order)
	HeadsByW  []int  `json:"headsfind"` // FindHeads order of the head entries (NewFromEntry sources)
	Values    []int  `json:"values"`
	Lid       string `json:"lid"`
	Manifest  string `json:"manifest"`
	NManifest int    `json:"nmanifest"`
}

// Shape is a stored log built by an L-script.
type Shape struct {
	Run   *ldriver.Run
	D     []ModelEntry
	Cids  []cid.Cid
	IDs   map[string]int
	Reps  []RepInfo
	Mcids []cid.Cid
}

func (s *Shape) IDOf(c cid.Cid) int { return s.IDs[c.String()] }
func (s *Shape) CidOf(id int) cid.Cid {
	if id < 1 || id > len(s.Cids) {
		return cid.Undef
	}
	return s.Cids[id-1]
}

// BuildShape runs the script and describes the result in model terms.
func BuildShape(ctx context.Context, cfg *ldriver.Config, pool *world.Pool, ops []ldriver.Op) (*Shape, error) {
	reg := world.NewRegistry(pool)
	r, err := ldriver.NewRun(ctx, cfg, pool, reg)
	if err != nil {
		return nil, err
	}
	for i, op := range ops {
		ev := ldriver.Event{}
		r.Exec(i+1, op, &ev)
		if ev.HErr {
			return nil, fmt.Errorf("shape script op %d: %s", i+1, ev.Err)
		}
	}
	s := &Shape{Run: r, IDs: map[string]int{}}
	s.Cids = append(s.Cids, r.Created...)
	for i, c := range s.Cids {
		s.IDs[c.String()] = i + 1
	}
	// hash ranks among the shape's entries
	order := make([]int, len(s.Cids))
	for i := range order {
		order[i] = i
	}
	sort.Slice(order, func(a, b int) bool { return s.Cids[order[a]].String() < s.Cids[order[b]].String() })
	rank := make([]int, len(s.Cids))
	for rk, idx := range order {
		rank[idx] = rk + 1
	}
	for i, c := range s.Cids {
		e, err := entry.FromMultihashWithIO(ctx, r.API, c, pool.W(1).Provider, r.IO)
		if err != nil {
			return nil, fmt.Errorf("cannot decode created entry %d: %w", i+1, err)
		}
		me := ModelEntry{W: pool.RankOfKey(e.GetClock().GetID()), T: e.GetClock().GetTime(), H: rank[i], Lid: e.GetLogID(), Next: []int{}, Refs: []int{}}
		for _, n := range e.GetNext() {
			me.Next = append(me.Next, s.IDs[n.String()])
		}
		for _, n := range e.GetRefs() {
			me.Refs = append(me.Refs, s.IDs[n.String()])
		}
		s.D = append(s.D, me)
	}
	for _, l := range r.Logs {
		ri := RepInfo{Ents: []int{}, Heads: []int{}, HeadsByW: []int{}, Values: []int{}, Lid: l.GetID()}
		for _, e := range l.GetEntries().Slice() {
			ri.Ents = append(ri.Ents, s.IDOf(e.GetHash()))
		}
		sort.Ints(ri.Ents)
		for _, c := range l.ToJSONLog().Heads {
			ri.Heads = append(ri.Heads, s.IDOf(c))
		}
		for _, e := range entry.FindHeads(l.GetEntries()) {
			ri.HeadsByW = append(ri.HeadsByW, s.IDOf(e.GetHash()))
		}
		for _, e := range l.Values().Slice() {
			ri.Values = append(ri.Values, s.IDOf(e.GetHash()))
		}
		mc := cid.Undef
		if len(ri.Heads) > 0 {
			before := r.API.D.NumWrites()
			c, err := l.ToMultihash(ctx)
			if err != nil {
				return nil, err
			}
			mc = c
			ri.Manifest = c.String()
			ri.NManifest = r.API.D.NumWrites() - before
		}
		s.Mcids = append(s.Mcids, mc)
		s.Reps = append(s.Reps, ri)
	}
	return s, nil
}

// Instance is one loader configuration over a shape (mirrors the instance record of FetchOps.tla).
type Instance struct {
	Name           string            `json:"name"`
	Shape          int               `json:"shape"`
	Replica        int               `json:"replica"`
	Kind           string            `json:"Kind"` // fetch | mh | json | entry | entryhash
	N              int               `json:"N"`    // the caller's limit (-1 none)
	Length         int               `json:"Length"`
	Conc           int               `json:"Conc"`
	K              int               `json:"K"`
	Start          []int             `json:"Start"`
	Faults         map[string]string `json:"faults"` // model id (as string) -> kind
	Excluded       []int             `json:"Excluded"`
	Timeout        bool              `json:"Timeout"`
	RealTimeoutMs  int               `json:"RealTimeout"`    // > 0: free-running with the loader's own Timeout option
	PrimeFrom      int               `json:"PrimeFrom"`      // != 0: the caller's LogOptions value was used for an earlier load, starting from this entry
	CustomManifest bool              `json:"CustomManifest"` // mh: load a manifest listing the heads in Start order (any writer may have produced it)
}

// Loaded is the projection of the log a loader returned.
type Loaded struct {
	Ents   []int  `json:"ents"`
	Heads  []int  `json:"heads"`
	Values []int  `json:"values"`
	Lid    string `json:"lid"`
}

// Final is the outcome of one run.
type Final struct {
	K        string            `json:"k"`
	Inst     string            `json:"inst"`
	Run      int               `json:"run"`
	Returned bool              `json:"returned"`
	Hung     bool              `json:"hung"`
	Panic    bool              `json:"panic"`
	Err      string            `json:"err"`
	Result   []int             `json:"result"` // the fetch result (kind fetch) or the loaded log's entries in index order
	Res      []int             `json:"res"`    // the fetcher's result sequence as of its last event under the mutex
	Reqs     []int             `json:"reqs"`
	MaxGets  int               `json:"maxgets"`
	TimedOut bool              `json:"timedout"`
	Followed bool              `json:"followed"`
	Elapsed  int               `json:"elapsed_ms"`
	Loaded   *Loaded           `json:"loaded"`
	HasLog   bool              `json:"haslog"`
	NSteps   int               `json:"nsteps"`
	HErr     bool              `json:"herr"`
	Progress []int             `json:"progress"` // entries signalled on FetchOptions.ProgressChan, in order
	Sched    []json.RawMessage `json:"sched"`    // the schedule the run was asked to follow (for replay)
}

// StepRec is a Step tagged with its run.
type StepRec struct {
	K    string `json:"k"`
	Inst string `json:"inst"`
	Run  int    `json:"run"`
	Seq  int    `json:"seq"`
	sched.Step
}

func faultKind(s string) fakeipfs.FaultKind {
	switch s {
	case "missing":
		return fakeipfs.FaultMissing
	case "error":
		return fakeipfs.FaultError
	case "ctxerror":
		return fakeipfs.FaultCtxError
	case "garbage":
		return fakeipfs.FaultGarbage
	case "slow":
		return fakeipfs.FaultSlow
	}
	return fakeipfs.FaultNone
}

func intPtr(v int) *int { return &v }

// MalformedBlock returns well-formed CBOR that is not a decodable entry: a field the decoder needs is
// absent, null or of the wrong type (the shapes of Codec.tla's C12 lattice that must yield an error).
func MalformedBlock(pool *world.Pool, variant int) []byte {
	id := pool.W(1)
	m := map[string]interface{}{
		"v": 2, "id": "X", "key": hex.EncodeToString(id.PublicKey), "sig": "3045", "hash": nil,
		"next": []interface{}{}, "refs": []interface{}{},
		"clock":   map[string]interface{}{"id": hex.EncodeToString(id.PublicKey), "time": 1},
		"payload": "planted",
		"identity": map[string]interface{}{"id": id.ID, "publicKey": hex.EncodeToString(id.PublicKey), "type": "orbitdb",
			"signatures": map[string]interface{}{"id": hex.EncodeToString(id.Signatures.ID), "publicKey": hex.EncodeToString(id.Signatures.PublicKey)}},
	}
	switch variant % 6 {
	case 0:
		delete(m, "clock")
	case 1:
		m["clock"] = nil
	case 2:
		delete(m["identity"].(map[string]interface{}), "signatures")
	case 3:
		m["next"] = "notalist"
	case 4:
		m["key"] = "zz-not-hex"
	case 5:
		m["clock"] = map[string]interface{}{"id": 7, "time": "late"}
	}
	node, err := cbornode.WrapObject(m, mh.SHA2_256, -1)
	if err != nil {
		return []byte{0xa0}
	}
	return node.RawData()
}

// RunInstance executes the loader of inst over a clone of the shape's store under the schedule.
func RunInstance(ctx context.Context, s *Shape, pool *world.Pool, inst *Instance, schedule []sched.Choice, runNo int) ([]StepRec, *Final, error) {
	api := s.Run.API.D.Clone()
	slow := map[int]bool{}
	for k, v := range inst.Faults {
		var id int
		fmt.Sscanf(k, "%d", &id)
		if strings.HasPrefix(v, "malformed") {
			var variant int
			fmt.Sscanf(v, "malformed%d", &variant)
			api.D.SetReplace(s.CidOf(id), MalformedBlock(pool, variant))
			continue
		}
		api.D.SetFault(s.CidOf(id), faultKind(v))
		if v == "slow" {
			slow[id] = true
		}
	}
	excl := map[string]bool{}
	for _, id := range inst.Excluded {
		excl[s.CidOf(id).String()] = true
	}
	var shouldExclude iface.ExcludeFunc
	if len(excl) > 0 {
		shouldExclude = func(c cid.Cid) bool { return excl[c.String()] }
	}
	fr := sched.NewFetchRun(s.IDOf, s.CidOf, inst.Conc)
	fr.Slow = slow
	var rt time.Duration
	if inst.RealTimeoutMs > 0 {
		rt = time.Duration(inst.RealTimeoutMs) * time.Millisecond
		fr.SetFree(rt + 10*time.Second)
	}
	rctx, cancel := context.WithCancel(ctx)
	defer cancel()
	fin := &Final{K: "final", Inst: inst.Name, Run: runNo, Result: []int{}, Reqs: []int{}, Res: []int{}, Progress: []int{}}
	progress := make(chan iface.IPFSLogEntry, 8192)
	var length *int
	if inst.N >= 0 {
		length = intPtr(inst.N)
	}
	rep := s.Run.Logs[inst.Replica-1]
	identity := rep.Identity
	var startCids []cid.Cid
	for _, id := range inst.Start {
		startCids = append(startCids, s.CidOf(id))
	}
	var loaded *ipfslog.IPFSLog
	start := func() {
		defer func() {
			if p := recover(); p != nil {
				fin.Panic = true
				fin.Err = fmt.Sprintf("panic: %v", p)
			}
		}()
		var err error
		// one LogOptions value per caller: when PrimeFrom is set the caller has already used it for another load
		// (of an older state of the log, from an unfaulted copy of the store, outside the schedule)
		lo := &ipfslog.LogOptions{ID: rep.GetID(), IO: s.Run.IO, SortFn: world.SortFn(s.Run.Cfg.Fn)}
		if inst.PrimeFrom != 0 {
			fr.Mute(true)
			pc := s.CidOf(inst.PrimeFrom)
			clone := s.Run.API.D.Clone()
			switch inst.Kind {
			case "entryhash":
				_, _ = ipfslog.NewFromEntryHash(rctx, clone, identity, pc, lo, &ipfslog.FetchOptions{})
			case "json":
				_, _ = ipfslog.NewFromJSON(rctx, clone, identity, &iface.JSONLog{ID: rep.GetID(), Heads: []cid.Cid{pc}}, lo, &entry.FetchOptions{})
			case "entry":
				if pe, ok := rep.Get(pc); ok {
					_, _ = ipfslog.NewFromEntry(rctx, clone, identity, []iface.IPFSLogEntry{pe}, lo, &entry.FetchOptions{})
				}
			}
			fr.Mute(false)
		}
		switch inst.Kind {
		case "fetch":
			res := entry.FetchAll(rctx, api, startCids, &entry.FetchOptions{Length: length, Concurrency: inst.Conc, ShouldExclude: shouldExclude, IO: s.Run.IO, Timeout: rt, ProgressChan: progress})
			for _, e := range res {
				fin.Result = append(fin.Result, s.IDOf(e.GetHash()))
			}
		case "mh":
			mcid := s.Mcids[inst.Replica-1]
			if inst.CustomManifest {
				c, werr := s.Run.IO.Write(rctx, api, &iface.JSONLog{ID: rep.GetID(), Heads: startCids}, nil)
				if werr != nil {
					fin.HErr, fin.Err = true, "harness: cannot write manifest: "+werr.Error()
					return
				}
				mcid = c
			}
			loaded, err = ipfslog.NewFromMultihash(rctx, api, identity, mcid,
				&ipfslog.LogOptions{IO: s.Run.IO, SortFn: world.SortFn(s.Run.Cfg.Fn)},
				&ipfslog.FetchOptions{Length: length, Concurrency: inst.Conc, ShouldExclude: shouldExclude, Timeout: rt, ProgressChan: progress})
		case "json":
			if inst.PrimeFrom == 0 {
				lo = &ipfslog.LogOptions{IO: s.Run.IO, SortFn: world.SortFn(s.Run.Cfg.Fn)}
			}
			loaded, err = ipfslog.NewFromJSON(rctx, api, identity, &iface.JSONLog{ID: rep.GetID(), Heads: startCids}, lo,
				&entry.FetchOptions{Length: length, Concurrency: inst.Conc, ProgressChan: progress})
		case "entry":
			// (a caller's slice with spare capacity: whatever the loader appends to it lands in the caller's array)
			src := make([]iface.IPFSLogEntry, 0, 64)
			for _, c := range startCids {
				e, ok := rep.Get(c)
				if !ok {
					fin.HErr, fin.Err = true, "harness: source entry not in replica"
					return
				}
				src = append(src, e)
			}
			if inst.PrimeFrom == 0 {
				lo = &ipfslog.LogOptions{IO: s.Run.IO, SortFn: world.SortFn(s.Run.Cfg.Fn)}
			}
			loaded, err = ipfslog.NewFromEntry(rctx, api, identity, src, lo,
				&entry.FetchOptions{Length: length, Concurrency: inst.Conc, ProgressChan: progress})
		case "entryhash":
			loaded, err = ipfslog.NewFromEntryHash(rctx, api, identity, startCids[0], lo,
				&ipfslog.FetchOptions{Length: length, Concurrency: inst.Conc, ShouldExclude: shouldExclude, ProgressChan: progress})
		default:
			fin.HErr, fin.Err = true, "harness: unknown loader kind "+inst.Kind
		}
		if err != nil {
			fin.Err = err.Error()
			if len(fin.Err) > 160 {
				fin.Err = fin.Err[:160]
			}
		}
	}
	t0 := time.Now()
	timedOut := false
	hung, derr := fr.Drive(api, schedule, start, func() { timedOut = true; cancel() })
	fin.Elapsed = int(time.Since(t0).Milliseconds())
	if derr != nil {
		fr.Abort()
		return nil, nil, derr
	}
	fin.Hung = hung
	fin.Returned = !hung
drain:
	for {
		select {
		case e := <-progress:
			fin.Progress = append(fin.Progress, s.IDOf(e.GetHash()))
		default:
			break drain
		}
	}
	fin.TimedOut = timedOut
	fin.Followed = fr.Followed
	fin.Reqs = append(fin.Reqs, fr.Requests...)
	fin.MaxGets = fr.MaxConcurrentGets()
	if hung {
		cancel()
		fr.Abort()
	}
	if loaded != nil && !hung {
		fin.HasLog = true
		ld := &Loaded{Ents: []int{}, Heads: []int{}, Values: []int{}, Lid: loaded.GetID()}
		for _, e := range loaded.GetEntries().Slice() {
			ld.Ents = append(ld.Ents, s.IDOf(e.GetHash()))
		}
		fin.Result = append(fin.Result, ld.Ents...)
		for _, e := range loaded.Heads().Slice() {
			ld.Heads = append(ld.Heads, s.IDOf(e.GetHash()))
		}
		for _, e := range loaded.Values().Slice() {
			ld.Values = append(ld.Values, s.IDOf(e.GetHash()))
		}
		fin.Loaded = ld
	}
	if fin.Loaded == nil {
		fin.Loaded = &Loaded{Ents: []int{}, Heads: []int{}, Values: []int{}}
	}
	var steps []StepRec
	empty := func() *sched.State { return &sched.State{Q: []sched.QItem{}, Cache: []sched.CItem{}, Res: []int{}} }
	for i, st := range fr.Steps {
		if st.Pre == nil {
			st.Pre = empty()
		}
		if st.Post == nil {
			st.Post = empty()
		}
		steps = append(steps, StepRec{K: "step", Inst: inst.Name, Run: runNo, Seq: i + 1, Step: st})
	}
	fin.NSteps = len(steps)
	if len(fr.Steps) > 0 {
		fin.Res = append(fin.Res, fr.Steps[len(fr.Steps)-1].Post.Res...)
	}
	return steps, fin, nil
}

// ParseSchedule converts TLC's [["L",6],["F",6],["P",6],["W"],["T"]] into choices.
func ParseSchedule(raw []json.RawMessage) []sched.Choice {
	var out []sched.Choice
	for _, r := range raw {
		var parts []json.RawMessage
		if json.Unmarshal(r, &parts) != nil || len(parts) == 0 {
			continue
		}
		var c sched.Choice
		_ = json.Unmarshal(parts[0], &c.Kind)
		if len(parts) > 1 {
			_ = json.Unmarshal(parts[1], &c.H)
		}
		out = append(out, c)
	}
	return out
}
