// Package cdriver runs concurrency scenarios (family K): a sequential setup, then
// several public calls issued concurrently on the real logs, interleaved by the
// lock scheduler according to a TLC behaviour of LogConc.tla.
package cdriver

import (
	"context"
	"encoding/json"
	"fmt"
	"time"

	ipfslog "berty.tech/go-ipfs-log"
	"berty.tech/go-ipfs-log/iface"

	"verif/harness/ldriver"
	"verif/harness/sched"
	"verif/harness/world"
)

// ProcOp is one concurrently issued operation (a Menu record of LogConc.tla).
type ProcOp struct {
	Op  string `json:"op"`  // A | J | R | P | SI
	R   int    `json:"r"`   // the log it is called on
	S   int    `json:"s"`   // Join: the source log
	N   int    `json:"n"`   // Append: pointer count; SI: writer
	Acc string `json:"acc"` // R: the accessor
}

type Scenario struct {
	Setup []ldriver.Op `json:"setup"`
	Procs []ProcOp     `json:"procs"`
	Sched []int        `json:"sched"`
}

// RetRec is what a call returned.
type RetRec struct {
	Kind   string `json:"kind"` // none | entry | read | ok | error | manifest
	ID     int    `json:"id"`
	Acc    string `json:"acc"`
	Ents   []int  `json:"ents"`
	Heads  []int  `json:"heads"`
	Values []int  `json:"values"`
	HasE   bool   `json:"hase"`
	HasH   bool   `json:"hash"`
	HasV   bool   `json:"hasv"`
	N      int    `json:"n"`
	Err    string `json:"err"`
	Panic  bool   `json:"panic"`
}

func emptyRet() RetRec {
	return RetRec{Kind: "none", Ents: []int{}, Heads: []int{}, Values: []int{}}
}

// SrcState is a (entries, heads) pair a source log had at some instant.
type SrcState struct {
	Ents  []int `json:"ents"`
	Heads []int `json:"heads"`
}

type Rec struct {
	K        string           `json:"k"` // step | final
	Sid      int              `json:"sid"`
	Seq      int              `json:"seq"`
	G        int              `json:"g"`
	Op       ProcOp           `json:"op"`
	From     string           `json:"from"`
	To       string           `json:"to"`
	Finished bool             `json:"finished"`
	Blocked  bool             `json:"blocked"`
	Obs      bool             `json:"obs"`     // pre and post could be observed (nobody held a lock across a yield point)
	PostObs  bool             `json:"postobs"` // post could be observed
	Pre      []world.RepState `json:"pre"`
	Post     []world.RepState `json:"post"`
	Ret      RetRec           `json:"ret"`
	Cands    []SrcState       `json:"cands"` // Join's last step: states the source had since the join began
	// final
	AllDone  bool     `json:"alldone"`
	Stuck    []int    `json:"stuck"`
	Procs    []ProcOp `json:"procs"`
	Rets     []RetRec `json:"rets"`
	Began    []int    `json:"began"`
	Ended    []int    `json:"ended"`
	Followed bool     `json:"followed"`
	HErr     bool     `json:"herr"`
	Note     string   `json:"note"`
	Scen     string   `json:"scen"` // final records: the scenario (for replay)
}

func ids(reg *world.Registry, om iface.IPFSLogOrderedEntries) []int {
	out := []int{}
	for _, e := range om.Slice() {
		out = append(out, reg.Observe(e))
	}
	return out
}

func execProc(ctx context.Context, r *ldriver.Run, sid, g int, op ProcOp) (ret RetRec) {
	ret = emptyRet()
	defer func() {
		if p := recover(); p != nil {
			ret.Kind, ret.Panic, ret.Err = "error", true, fmt.Sprintf("panic: %v", p)
		}
	}()
	l := r.Logs[op.R-1]
	switch op.Op {
	case "A":
		e, err := l.Append(ctx, []byte(fmt.Sprintf("c%d-%d", sid, g)), &ipfslog.AppendOptions{PointerCount: op.N})
		if err != nil || e == nil {
			ret.Kind, ret.Err = "error", fmt.Sprint(err)
			return
		}
		ret.Kind, ret.ID = "entry", r.Reg.Observe(e)
	case "J":
		_, err := l.Join(r.Logs[op.S-1], -1)
		if err != nil {
			ret.Kind, ret.Err = "error", err.Error()
			return
		}
		ret.Kind = "ok"
	case "JB":
		_, err := l.Join(r.Logs[op.S-1], op.N)
		if err != nil {
			ret.Kind, ret.Err = "error", err.Error()
			return
		}
		ret.Kind = "ok"
	case "SI":
		l.SetIdentity(r.Pool.W(op.N))
		ret.Kind = "ok"
	case "P":
		c, err := l.ToMultihash(ctx)
		if err != nil {
			ret.Kind, ret.Err = "error", err.Error()
			return
		}
		ret.Kind = "manifest"
		node := r.API.D.Raw(c)
		if node != nil {
			ret.HasH = true
			for _, lk := range node.Links() {
				ret.Heads = append(ret.Heads, r.Reg.ID(lk.Cid))
			}
		}
	case "R":
		ret.Kind, ret.Acc = "read", op.Acc
		switch op.Acc {
		case "Values":
			ret.Values, ret.HasV = ids(r.Reg, l.Values()), true
		case "Heads":
			ret.Heads, ret.HasH = ids(r.Reg, l.Heads()), true
		case "RawHeads":
			ret.Heads, ret.HasH = ids(r.Reg, l.RawHeads()), true
		case "RawHeadsHeld":
			// the caller keeps what it was handed and reads it only later (a yield point of the harness in between)
			h := l.RawHeads()
			yieldHere(l, "held.RawHeads")
			ret.Heads, ret.HasH = ids(r.Reg, h), true
		case "GetEntries":
			ret.Ents, ret.HasE = ids(r.Reg, l.GetEntries()), true
		case "ToSnapshot":
			s := l.ToSnapshot()
			ret.HasH, ret.HasV = true, true
			for _, c := range s.Heads {
				ret.Heads = append(ret.Heads, r.Reg.ID(c))
			}
			for _, e := range s.Values {
				ret.Values = append(ret.Values, r.Reg.Observe(e))
			}
		case "ToJSONLog":
			ret.HasH = true
			for _, c := range l.ToJSONLog().Heads {
				ret.Heads = append(ret.Heads, r.Reg.ID(c))
			}
		case "Len":
			ret.N = l.Len()
		case "LenLoop":
			// free-running race runs only: many reads, so that one of them falls between the steps of a concurrent writer
			for i := 0; i < 20000; i++ {
				ret.N = l.Len()
			}
		case "Iterator":
			ch := make(chan iface.IPFSLogEntry, 4096)
			if err := l.Iterator(&ipfslog.IteratorOptions{}, ch); err != nil {
				ret.Kind, ret.Err = "error", err.Error()
				return
			}
			ret.HasV = true
			var rev []int
			for e := range ch {
				rev = append(rev, r.Reg.Observe(e))
			}
			for i := len(rev) - 1; i >= 0; i-- {
				ret.Values = append(ret.Values, rev[i])
			}
		case "ToString":
			_ = l.ToString(nil)
		default:
			ret.Kind, ret.Err = "error", "harness: unknown accessor "+op.Acc
		}
	default:
		ret.Kind, ret.Err = "error", "harness: unknown op "+op.Op
	}
	return
}

// observe projects every log, giving up after a second (a goroutine parked inside a critical section).
func observe(r *ldriver.Run) ([]world.RepState, bool) {
	ch := make(chan []world.RepState, 1)
	go func() { ch <- r.States() }()
	select {
	case st := <-ch:
		return st, true
	case <-time.After(300 * time.Millisecond):
		return nil, false
	}
}

func emptyStates(n int) []world.RepState {
	out := make([]world.RepState, n)
	for i := range out {
		out[i] = world.RepState{Ents: []int{}, Heads: []int{}, RawHeads: []int{}, SnapHeads: []int{}, JSONHeads: []int{},
			Values: []int{}, SnapValues: []int{}, Nidx: []int{}, Digs: []int{}, LDigs: []int{}, GetDigs: []int{}, VDigs: []int{}, OrigDigs: []int{}, Bad: []world.BadRec{}, StrIDs: []int{}, StrDepth: []int{}}
	}
	return out
}

// RunScenario executes one scenario; the yield hook is process-global, so scenarios run one at a time.
func RunScenario(ctx context.Context, cfg *ldriver.Config, pool *world.Pool, reg *world.Registry, sid int, sc *Scenario) ([]Rec, error) {
	r, err := ldriver.NewRun(ctx, cfg, pool, reg)
	if err != nil {
		return nil, err
	}
	for i, op := range sc.Setup {
		ev := ldriver.Event{}
		r.Exec(i+1, op, &ev)
		if ev.HErr || ev.Err != "" {
			return nil, fmt.Errorf("setup op %d failed: %s", i+1, ev.Err)
		}
	}
	n := len(sc.Procs)
	lr := sched.NewLockRun()
	ipfslog.VerifYieldHook = lr.Hook
	defer func() { ipfslog.VerifYieldHook = nil }()
	rets := make([]RetRec, n)
	for i := range rets {
		rets[i] = emptyRet()
	}
	for g := 1; g <= n; g++ {
		g := g
		lr.Go(g, func() { rets[g-1] = execProc(ctx, r, sid, g, sc.Procs[g-1]) })
	}
	lr.Settle(n)
	var recs []Rec
	began := make([]int, n)
	ended := make([]int, n)
	srcHist := make([][]SrcState, n) // for joins: states of the source since the join began
	cur, curOK := observe(r)
	seq := 0
	followed := true
	src := func(st []world.RepState, s int) SrcState {
		return SrcState{Ents: append([]int{}, st[s-1].Ents...), Heads: append([]int{}, st[s-1].RawHeads...)}
	}
	step := func(g int) bool {
		out, ok := lr.Step(g)
		if !ok {
			return false
		}
		seq++
		op := sc.Procs[g-1]
		if began[g-1] == 0 {
			began[g-1] = seq
			if op.Op == "J" && curOK && op.S >= 1 && op.S <= len(cur) {
				srcHist[g-1] = append(srcHist[g-1], src(cur, op.S))
			}
		}
		rec := Rec{K: "step", Sid: sid, Seq: seq, G: g, Op: op, From: out.From, To: out.To, Finished: out.Finished, Blocked: out.Blocked,
			Ret: emptyRet(), Cands: []SrcState{}, Stuck: []int{}, Procs: []ProcOp{}, Rets: []RetRec{}, Began: []int{}, Ended: []int{}}
		post, postOK := observe(r)
		rec.Obs = curOK && postOK
		rec.PostObs = postOK
		rec.Pre, rec.Post = emptyStates(len(r.Logs)), emptyStates(len(r.Logs))
		if curOK {
			rec.Pre = cur
		}
		if postOK {
			rec.Post = post
		}
		if out.Finished {
			ended[g-1] = seq
			rec.Ret = rets[g-1]
		}
		// every join still in progress sees the source's new state as a further candidate instant
		if postOK {
			for j := 1; j <= n; j++ {
				o := sc.Procs[j-1]
				if o.Op == "J" && began[j-1] != 0 && ended[j-1] == 0 && o.S >= 1 && o.S <= len(post) {
					srcHist[j-1] = append(srcHist[j-1], src(post, o.S))
				}
			}
		}
		if out.Finished && op.Op == "J" {
			rec.Cands = append(rec.Cands, srcHist[g-1]...)
		}
		cur, curOK = post, postOK
		recs = append(recs, rec)
		return true
	}
	for _, g := range sc.Sched {
		if g < 1 || g > n || !step(g) {
			followed = false
		}
	}
	// default policy: release whatever is parked, lowest index first
	for guard := 0; guard < 200; guard++ {
		p := lr.Parked()
		if len(p) == 0 {
			break
		}
		min := p[0]
		for _, g := range p {
			if g < min {
				min = g
			}
		}
		step(min)
	}
	lr.WaitAll(n, 1*time.Second)
	stuck := lr.Unfinished()
	fin := Rec{K: "final", Sid: sid, Seq: seq + 1, AllDone: len(stuck) == 0, Stuck: append([]int{}, stuck...), Procs: sc.Procs, Rets: rets,
		Began: began, Ended: ended, Followed: followed, Ret: emptyRet(), Cands: []SrcState{}}
	if len(stuck) > 0 {
		st := sched.Stacks()
		if len(st) > 6000 {
			st = st[:6000]
		}
		fin.Note = st
		fin.Pre, fin.Post = emptyStates(len(r.Logs)), emptyStates(len(r.Logs))
	} else {
		final, ok := observe(r)
		fin.Obs, fin.PostObs = ok, ok
		if ok {
			fin.Pre, fin.Post = final, final
		} else {
			fin.Pre, fin.Post = emptyStates(len(r.Logs)), emptyStates(len(r.Logs))
		}
	}
	if raw, err := json.Marshal(sc); err == nil {
		fin.Scen = string(raw)
	}
	recs = append(recs, fin)
	return recs, nil
}

// RunFree runs the scenario's concurrent calls without any gating (all goroutines start together);
// it is the form used under the race detector and for stress.  Only a final record is produced.
func RunFree(ctx context.Context, cfg *ldriver.Config, pool *world.Pool, reg *world.Registry, sid int, sc *Scenario) ([]Rec, error) {
	r, err := ldriver.NewRun(ctx, cfg, pool, reg)
	if err != nil {
		return nil, err
	}
	for i, op := range sc.Setup {
		ev := ldriver.Event{}
		r.Exec(i+1, op, &ev)
		if ev.HErr || ev.Err != "" {
			return nil, fmt.Errorf("setup op %d failed: %s", i+1, ev.Err)
		}
	}
	n := len(sc.Procs)
	rets := make([]RetRec, n)
	for i := range rets {
		rets[i] = emptyRet()
	}
	start := make(chan struct{})
	done := make(chan int, n)
	for g := 1; g <= n; g++ {
		g := g
		go func() {
			<-start
			rets[g-1] = execProc(ctx, r, sid, g, sc.Procs[g-1])
			done <- g
		}()
	}
	close(start)
	finished := map[int]bool{}
	// a run that does not finish is a deadlock only if every library goroutine is blocked on a lock;
	// a slow machine gets up to 60 s
	began := time.Now()
loop:
	for len(finished) < n {
		select {
		case g := <-done:
			finished[g] = true
		case <-time.After(2 * time.Second):
			if time.Since(began) > 60*time.Second || sched.LibraryGoroutinesAllBlocked("berty.tech/go-ipfs-log.(*IPFSLog)") {
				break loop
			}
		}
	}
	fin := Rec{K: "final", Sid: sid, Seq: 1, AllDone: len(finished) == n, Stuck: []int{}, Procs: sc.Procs, Rets: make([]RetRec, n),
		Began: make([]int, n), Ended: make([]int, n), Followed: true, Ret: emptyRet(), Cands: []SrcState{}}
	for g := 1; g <= n; g++ {
		if !finished[g] {
			fin.Stuck = append(fin.Stuck, g)
			fin.Rets[g-1] = emptyRet()
		} else {
			fin.Rets[g-1] = rets[g-1]
		}
	}
	fin.Pre, fin.Post = emptyStates(len(r.Logs)), emptyStates(len(r.Logs))
	if fin.AllDone {
		if st, ok := observe(r); ok {
			fin.Obs, fin.PostObs = true, true
			fin.Pre, fin.Post = st, st
		}
	} else {
		st := sched.Stacks()
		if len(st) > 6000 {
			st = st[:6000]
		}
		fin.Note = st
	}
	return []Rec{fin}, nil
}

// ParseScenario reads TLC's {"setup":[...],"procs":[...],"sched":[...]}.
func ParseScenario(line []byte) (*Scenario, error) {
	sc := &Scenario{}
	if err := json.Unmarshal(line, sc); err != nil {
		return nil, err
	}
	return sc, nil
}
