//go:build verif

package cdriver

import ipfslog "berty.tech/go-ipfs-log"

// yieldHere is a yield point of the harness itself (same scheduler hook as the library's yield points).
func yieldHere(l *ipfslog.IPFSLog, point string) {
	if hook := ipfslog.VerifYieldHook; hook != nil {
		hook(l, point)
	}
}
