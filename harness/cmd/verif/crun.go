package main

import (
	"bufio"
	"context"
	"encoding/json"
	"flag"
	"fmt"
	"os"

	"verif/harness/cdriver"
	"verif/harness/ldriver"
	"verif/harness/world"
)

func init() { register("crun", crun) }

// crun: run concurrency scenarios under the lock scheduler and write the observed trace.
func crun(args []string) int {
	fs := flag.NewFlagSet("crun", flag.ExitOnError)
	cfgPath := fs.String("cfg", "", "L config json")
	scPath := fs.String("scenarios", "", "ndjson of {setup, procs, sched}")
	outPath := fs.String("out", "", "observed trace (ndjson)")
	maxStuck := fs.Int("maxstuck", 8, "stop after this many scenarios whose calls did not all return")
	free := fs.Int("free", 0, "if > 0: run each scenario that many times without gating (race / stress runs)")
	_ = fs.Parse(args)
	raw, err := os.ReadFile(*cfgPath)
	if err != nil {
		fmt.Fprintln(os.Stderr, "harness:", err)
		return 2
	}
	cfg := &ldriver.Config{}
	if err := json.Unmarshal(raw, cfg); err != nil {
		fmt.Fprintln(os.Stderr, "harness:", err)
		return 2
	}
	if _, err := world.Codec("cbor"); err != nil {
		fmt.Fprintln(os.Stderr, "harness:", err)
		return 2
	}
	ctx := context.Background()
	pool, err := world.NewPool(ctx, 4, cfg.Seed)
	if err != nil {
		fmt.Fprintln(os.Stderr, "harness:", err)
		return 2
	}
	reg := world.NewRegistry(pool)
	f, err := os.Open(*scPath)
	if err != nil {
		fmt.Fprintln(os.Stderr, "harness:", err)
		return 2
	}
	defer f.Close()
	var all []cdriver.Rec
	sc := bufio.NewScanner(f)
	sc.Buffer(make([]byte, 1<<20), 1<<26)
	sid, stuck, followed := 0, 0, 0
	for sc.Scan() {
		if len(sc.Bytes()) == 0 {
			continue
		}
		scen, err := cdriver.ParseScenario(sc.Bytes())
		if err != nil {
			fmt.Fprintln(os.Stderr, "harness: bad scenario:", err)
			return 2
		}
		sid++
		var recs []cdriver.Rec
		if *free > 0 {
			for it := 0; it < *free; it++ {
				rs, err := cdriver.RunFree(ctx, cfg, pool, reg, sid, scen)
				if err != nil {
					fmt.Fprintln(os.Stderr, "harness:", err)
					return 2
				}
				recs = append(recs, rs...)
				// one execution of this scenario that does not terminate is a verdict: the goroutines left behind
				// hold the logs' locks, and every further execution would wait for its own watchdog
				if n := len(rs); n > 0 && rs[n-1].K == "final" && !rs[n-1].AllDone {
					break
				}
			}
		} else {
			recs, err = cdriver.RunScenario(ctx, cfg, pool, reg, sid, scen)
			if err != nil {
				fmt.Fprintln(os.Stderr, "harness:", err)
				return 2
			}
		}
		fin := recs[len(recs)-1]
		for _, rc := range recs {
			if rc.K == "final" && !rc.AllDone {
				stuck++
			}
		}
		if stuck >= *maxStuck {
			all = append(all, recs...)
			break
		}
		if fin.Followed {
			followed++
		}
		all = append(all, recs...)
	}
	out, err := os.Create(*outPath)
	if err != nil {
		fmt.Fprintln(os.Stderr, "harness:", err)
		return 2
	}
	defer out.Close()
	bw := bufio.NewWriterSize(out, 1<<20)
	enc := json.NewEncoder(bw)
	_ = enc.Encode(lHeader{K: "hdr", Cfg: cfg, U: reg.Universe(), NScripts: sid, Mode: "conc"})
	for i := range all {
		_ = enc.Encode(&all[i])
	}
	if err := bw.Flush(); err != nil {
		fmt.Fprintln(os.Stderr, "harness:", err)
		return 2
	}
	fmt.Printf("crun: scenarios=%d records=%d stuck=%d followed=%d\n", sid, len(all), stuck, followed)
	return 0
}
