package main

import (
	"bufio"
	"context"
	"crypto/sha256"
	"encoding/hex"
	"encoding/json"
	"flag"
	"fmt"
	"os"
	"strings"
	"sync"

	"berty.tech/go-ipfs-log/entry"
	idp "berty.tech/go-ipfs-log/identityprovider"
	"berty.tech/go-ipfs-log/io/cbor"
	ks "berty.tech/go-ipfs-log/keystore"
	ds "github.com/ipfs/go-datastore"
	dsq "github.com/ipfs/go-datastore/query"
	dssync "github.com/ipfs/go-datastore/sync"
	"github.com/libp2p/go-libp2p/core/crypto"

	"verif/harness/fakeipfs"
)

func init() { register("ksrun", ksrun) }

type ksRec struct {
	K          string `json:"k"`
	Sid        int    `json:"sid"`
	Idx        int    `json:"idx"`
	Op         string `json:"op"`
	Inst       int    `json:"inst"`
	ID         string `json:"id"`
	Present    bool   `json:"present"` // ground truth: the id was created earlier in this script
	Found      bool   `json:"found"`
	Stored     bool   `json:"stored"`
	Err        string `json:"err"`
	KeyFp      int    `json:"keyfp"`
	WantFp     int    `json:"wantfp"`
	IdentFp    int    `json:"identfp"`
	FirstIdent int    `json:"firstident"`
	IDSigOk    bool   `json:"idsigok"`
	PkSigOk    bool   `json:"pksigok"`
	EntrySigOk bool   `json:"entrysigok"`
	IDIsKey    bool   `json:"idiskey"`
	Fresh      bool   `json:"fresh"`
	ExpectNew  int    `json:"expect_new"`
	DsBefore   int    `json:"ds_before"`
	DsAfter    int    `json:"ds_after"`
	HErr       bool   `json:"herr"`
}

type fpTable struct {
	mu sync.Mutex
	m  map[string]int
}

func (t *fpTable) of(b []byte) int {
	if len(b) == 0 {
		return 0
	}
	h := sha256.Sum256(b)
	k := hex.EncodeToString(h[:8])
	t.mu.Lock()
	defer t.mu.Unlock()
	if v, ok := t.m[k]; ok {
		return v
	}
	t.m[k] = len(t.m) + 1
	return t.m[k]
}

func countKeys(ctx context.Context, store ds.Datastore) int {
	res, err := store.Query(ctx, dsq.Query{KeysOnly: true})
	if err != nil {
		return -1
	}
	defer res.Close()
	n := 0
	for r := range res.Next() {
		if !strings.HasPrefix(r.Key, "/filler-") {
			n++
		}
	}
	return n
}

func rawOf(k crypto.PrivKey) []byte {
	if k == nil {
		return nil
	}
	b, _ := k.Raw()
	return b
}

func runKsScript(ctx context.Context, nk int, sid int, ops [][]json.RawMessage, fps *fpTable, lastOnly bool) []ksRec {
	pubID := map[string]string{}
	store := dssync.MutexWrap(ds.NewMapDatastore())
	insts := make([]*ks.Keystore, nk)
	for i := range insts {
		insts[i], _ = ks.NewKeystore(store)
	}
	present := map[string]int{}
	firstIdent := map[string]int{}
	fillers := 0
	api := fakeipfs.New()
	io, _ := cbor.IO(&entry.Entry{}, &entry.LamportClock{})
	var out []ksRec
	for i, op := range ops {
		var name string
		var inst int
		_ = json.Unmarshal(op[0], &name)
		_ = json.Unmarshal(op[1], &inst)
		rec := ksRec{K: "ev", Sid: sid, Idx: i + 1, Op: name, Inst: inst}
		k := insts[inst-1]
		var id string
		if len(op) > 2 && name != "E" {
			_ = json.Unmarshal(op[2], &id)
		}
		rec.ID = id
		// the model's names are abstract: each script concretises them with one shape of id string (flat, address-like with
		// a leading slash, doubled slash, dot segment, trailing blank) - distinct names stay distinct under path cleaning
		id = concreteID(id, sid)
		_, rec.Present = present[id]
		rec.WantFp = present[id]
		rec.DsBefore = countKeys(ctx, store)
		func() {
			defer func() {
				if p := recover(); p != nil {
					rec.Err = fmt.Sprintf("panic: %v", p)
				}
			}()
			switch name {
			case "C":
				priv, err := k.CreateKey(ctx, id)
				rec.Err = errStr(err)
				rec.KeyFp = fps.of(rawOf(priv))
				rec.Stored, _ = store.Has(ctx, ds.NewKey(id))
				if err == nil {
					present[id] = rec.KeyFp
				}
				rec.ExpectNew = 1
			case "G":
				priv, err := k.GetKey(ctx, id)
				rec.Err = errStr(err)
				rec.KeyFp = fps.of(rawOf(priv))
			case "H":
				found, err := k.HasKey(ctx, id)
				rec.Found, rec.Err = found, errStr(err)
			case "E":
				var keep []string
				_ = json.Unmarshal(op[2], &keep)
				for _, kid := range keep {
					if strings.HasPrefix(kid, "pub:") {
						kid = pubID[strings.TrimPrefix(kid, "pub:")]
					}
					if kid != "" {
						_, _ = k.GetKey(ctx, kid)
					}
				}
				for j := 0; j < 128-len(keep); j++ {
					fillers++
					if _, err := k.CreateKey(ctx, fmt.Sprintf("filler-%d-%d", sid, fillers)); err != nil {
						rec.HErr, rec.Err = true, "harness: "+err.Error()
					}
				}
			case "O":
				nk, err := ks.NewKeystore(store)
				if err != nil {
					rec.HErr, rec.Err = true, "harness: "+err.Error()
				}
				insts[inst-1] = nk
			case "I":
				_, hadName := present[id]
				rec.FirstIdent = firstIdent[id]
				identity, err := idp.CreateIdentity(ctx, &idp.CreateIdentityOptions{Keystore: k, ID: id, Type: "orbitdb"})
				rec.Err = errStr(err)
				if err != nil || identity == nil {
					return
				}
				pubID[id] = identity.ID
				// ground truth: which keys exist now
				nameKey, _ := store.Get(ctx, ds.NewKey(id))
				if !hadName {
					present[id] = fps.of(nameKey)
					rec.ExpectNew++
				}
				if _, had := present["pub:"+id]; !had {
					pubKeyRaw, _ := store.Get(ctx, ds.NewKey(identity.ID))
					present["pub:"+id] = fps.of(pubKeyRaw)
					rec.ExpectNew++
				}
				rec.Fresh = !hadName
				h := sha256.New()
				h.Write([]byte(identity.ID))
				h.Write(identity.PublicKey)
				h.Write(identity.Signatures.ID)
				h.Write(identity.Signatures.PublicKey)
				h.Write([]byte(identity.Type))
				rec.IdentFp = fps.of(h.Sum(nil))
				if firstIdent[id] == 0 {
					firstIdent[id] = rec.IdentFp
				}
				// id signature verifies under the published public key
				if pk, err := identity.Provider.UnmarshalPublicKey(identity.PublicKey); err == nil {
					ok, err := pk.Verify([]byte(identity.ID), identity.Signatures.ID)
					rec.IDSigOk = ok && err == nil
				}
				// public-key signature verifies under the key the id denotes
				if idBytes, err := hex.DecodeString(identity.ID); err == nil {
					if pk, err := crypto.UnmarshalSecp256k1PublicKey(idBytes); err == nil {
						data := []byte(hex.EncodeToString(append(append([]byte{}, identity.PublicKey...), identity.Signatures.ID...)))
						ok, err := pk.Verify(data, identity.Signatures.PublicKey)
						rec.PkSigOk = ok && err == nil
					}
				}
				// the id is the public key of the key stored under the caller's id
				if priv, err := crypto.UnmarshalSecp256k1PrivateKey(nameKey); err == nil {
					pub, _ := priv.GetPublic().Raw()
					rec.IDIsKey = hex.EncodeToString(pub) == identity.ID
				}
				// an entry signed with the identity verifies under the published key bytes
				e, err := entry.CreateEntryWithIO(ctx, api, identity, &entry.Entry{Payload: []byte("ks-" + id), LogID: "K"}, nil, io)
				if err == nil {
					rec.EntrySigOk = e.Verify(identity.Provider, io) == nil && string(e.GetKey()) == string(identity.PublicKey)
				}
			default:
				rec.HErr, rec.Err = true, "harness: unknown op"
			}
		}()
		rec.DsAfter = countKeys(ctx, store)
		if !lastOnly || i == len(ops)-1 {
			out = append(out, rec)
		}
	}
	return out
}

func errStr(err error) string {
	if err == nil {
		return ""
	}
	s := err.Error()
	if len(s) > 100 {
		s = s[:100]
	}
	return s
}

func ksrun(args []string) int {
	fs := flag.NewFlagSet("ksrun", flag.ExitOnError)
	scriptsPath := fs.String("scripts", "", "ndjson scripts exported from Keystore.tla")
	outPath := fs.String("out", "", "observed trace")
	nk := fs.Int("nk", 2, "keystore instances")
	workers := fs.Int("workers", 8, "parallel scripts")
	mode := fs.String("mode", "last", "last | all")
	_ = fs.Parse(args)
	f, err := os.Open(*scriptsPath)
	if err != nil {
		fmt.Fprintln(os.Stderr, "harness:", err)
		return 2
	}
	var scripts [][][]json.RawMessage
	sc := bufio.NewScanner(f)
	sc.Buffer(make([]byte, 1<<20), 1<<26)
	for sc.Scan() {
		if len(sc.Bytes()) == 0 {
			continue
		}
		var ops [][]json.RawMessage
		if err := json.Unmarshal(sc.Bytes(), &ops); err != nil {
			fmt.Fprintln(os.Stderr, "harness: bad script:", err)
			return 2
		}
		scripts = append(scripts, ops)
	}
	f.Close()
	ctx := context.Background()
	// the codec singleton is initialised lazily and without synchronisation: do it before going parallel
	if _, err := cbor.IO(&entry.Entry{}, &entry.LamportClock{}); err != nil {
		fmt.Fprintln(os.Stderr, "harness:", err)
		return 2
	}
	fps := &fpTable{m: map[string]int{}}
	results := make([][]ksRec, len(scripts))
	jobs := make(chan int, len(scripts))
	for i := range scripts {
		jobs <- i
	}
	close(jobs)
	var wg sync.WaitGroup
	for w := 0; w < *workers; w++ {
		wg.Add(1)
		go func() {
			defer wg.Done()
			for i := range jobs {
				results[i] = runKsScript(ctx, *nk, i+1, scripts[i], fps, *mode == "last")
			}
		}()
	}
	wg.Wait()
	out, err := os.Create(*outPath)
	if err != nil {
		fmt.Fprintln(os.Stderr, "harness:", err)
		return 2
	}
	defer out.Close()
	bw := bufio.NewWriterSize(out, 1<<20)
	enc := json.NewEncoder(bw)
	_ = enc.Encode(map[string]interface{}{"k": "hdr", "nk": *nk, "nscripts": len(scripts)})
	n := 0
	for _, rs := range results {
		for i := range rs {
			_ = enc.Encode(&rs[i])
			n++
		}
	}
	if err := bw.Flush(); err != nil {
		fmt.Fprintln(os.Stderr, "harness:", err)
		return 2
	}
	fmt.Printf("ksrun: scripts=%d events=%d\n", len(scripts), n)
	return 0
}

// concreteID gives the abstract name n the id string of the script's palette.
func concreteID(n string, sid int) string {
	if n == "" {
		return n
	}
	switch sid % 5 {
	case 1:
		return "/orbitdb/" + n + "/keys"
	case 2:
		return "zone//" + n
	case 3:
		return "./" + n + "/../" + n + "-x"
	case 4:
		return n + " "
	}
	return n
}
