package main

import (
	"bufio"
	"encoding/json"
	"flag"
	"fmt"
	"math"
	"math/rand"
	"os"
	"sort"

	"berty.tech/go-ipfs-log/entry"
	"berty.tech/go-ipfs-log/entry/sorting"
	"berty.tech/go-ipfs-log/iface"
	"github.com/ipfs/go-cid"
	mh "github.com/multiformats/go-multihash"
)

func init() { register("sortrun", sortrun) }

// A palette gives concrete values for the ranks 0..K-1 of each dimension,
// ascending in the order the code itself uses (int order, bytes.Compare,
// strings.Compare of the CID string).
type palette struct {
	Times []int
	IDs   [][]byte
	Cids  []cid.Cid
}

type tri struct {
	T int `json:"t"`
	W int `json:"w"`
	H int `json:"h"`
}

type signs struct {
	AB  int  `json:"ab"`
	BA  int  `json:"ba"`
	BC  int  `json:"bc"`
	CB  int  `json:"cb"`
	AC  int  `json:"ac"`
	CA  int  `json:"ca"`
	AA  int  `json:"aa"`
	ABZ bool `json:"abz"` // NoZeroes(fn)(a,b) reported an error
	AAZ bool `json:"aaz"`
}

type triRec struct {
	K    string           `json:"k"`
	Pal  int              `json:"pal"`
	A    tri              `json:"a"`
	B    tri              `json:"b"`
	C    tri              `json:"c"`
	Obs  map[string]signs `json:"obs"`
	HErr bool             `json:"herr"`
}

type sortRec struct {
	K       string `json:"k"`
	Pal     int    `json:"pal"`
	Fn      string `json:"fn"`
	Rev     bool   `json:"rev"`
	Wrapped bool   `json:"wrapped"`
	Items   []tri  `json:"items"`
	Out1    []int  `json:"out1"`
	Out2    []int  `json:"out2"`
	HErr    bool   `json:"herr"`
}

func sgn(x int) int {
	if x < 0 {
		return -1
	}
	if x > 0 {
		return 1
	}
	return 0
}

func mkCids(n int, seed int64, v0 bool) []cid.Cid {
	var out []cid.Cid
	for i := 0; i < n*3; i++ {
		h, _ := mh.Sum([]byte(fmt.Sprintf("verif-sort-%d-%d", seed, i)), mh.SHA2_256, -1)
		if v0 && i%2 == 0 {
			out = append(out, cid.NewCidV0(h))
		} else {
			out = append(out, cid.NewCidV1(cid.DagCBOR, h))
		}
	}
	sort.Slice(out, func(a, b int) bool { return out[a].String() < out[b].String() })
	// keep n of them, spread out
	res := make([]cid.Cid, 0, n)
	for i := 0; i < n; i++ {
		res = append(res, out[i*3])
	}
	return res
}

func (p *palette) entry(x tri) iface.IPFSLogEntry {
	return &entry.Entry{Hash: p.Cids[x.H], Clock: &entry.LamportClock{ID: p.IDs[x.W], Time: p.Times[x.T]}, LogID: "S", Payload: []byte("x"), V: 2}
}

var comparators = map[string]func(a, b iface.IPFSLogEntry) (int, error){
	"LWW":  sorting.LastWriteWins,
	"FWW":  sorting.FirstWriteWins,
	"HASH": sorting.SortByEntryHash,
	"CLK":  sorting.Compare,
}

func observe(p *palette, a, b, c tri) map[string]signs {
	ea, eb, ec := p.entry(a), p.entry(b), p.entry(c)
	obs := map[string]signs{}
	for name, fn := range comparators {
		s := signs{}
		get := func(x, y iface.IPFSLogEntry) int {
			v, _ := fn(x, y)
			return sgn(v)
		}
		s.AB, s.BA, s.BC, s.CB, s.AC, s.CA, s.AA = get(ea, eb), get(eb, ea), get(eb, ec), get(ec, eb), get(ea, ec), get(ec, ea), get(ea, ea)
		_, err := sorting.NoZeroes(fn)(ea, eb)
		s.ABZ = err != nil
		_, err = sorting.NoZeroes(fn)(ea, ea)
		s.AAZ = err != nil
		obs[name] = s
	}
	cc := func(x, y iface.IPFSLogEntry) int { return sgn(x.GetClock().Compare(y.GetClock())) }
	obs["CLOCK"] = signs{AB: cc(ea, eb), BA: cc(eb, ea), BC: cc(eb, ec), CB: cc(ec, eb), AC: cc(ea, ec), CA: cc(ec, ea), AA: cc(ea, ea)}
	return obs
}

func cube(k int) []tri {
	var out []tri
	for t := 0; t < k; t++ {
		for w := 0; w < k; w++ {
			for h := 0; h < k; h++ {
				out = append(out, tri{t, w, h})
			}
		}
	}
	return out
}

func doSort(p *palette, fnName string, rev, wrapped bool, items []tri) []int {
	fn := comparators[fnName]
	if wrapped {
		fn = sorting.NoZeroes(fn)
	}
	es := make([]iface.IPFSLogEntry, len(items))
	pos := map[iface.IPFSLogEntry]int{}
	for i, it := range items {
		es[i] = p.entry(it)
		pos[es[i]] = i + 1
	}
	// sorting.Sort prints comparison errors to stdout: silence it
	old := os.Stdout
	devnull, _ := os.Open(os.DevNull)
	os.Stdout = devnull
	sorting.Sort(fn, es, rev)
	os.Stdout = old
	devnull.Close()
	out := make([]int, len(es))
	for i, e := range es {
		out[i] = pos[e]
	}
	return out
}

// sortrun: evaluate the real comparators / sorting.Sort on concrete entries order-isomorphic to rank triples.
func sortrun(args []string) int {
	fs := flag.NewFlagSet("sortrun", flag.ExitOnError)
	outPath := fs.String("out", "", "observed table (ndjson)")
	tier := fs.String("tier", "quick", "quick | thorough")
	seed := fs.Int64("seed", 1, "seed")
	_ = fs.Parse(args)

	const maxI, minI = math.MaxInt64, math.MinInt64
	ids3 := [][][]byte{
		{[]byte("a"), []byte("b"), []byte("c")},
		{[]byte("ab"), []byte("abc"), []byte("abd")},
		{{0x04, 0x00, 0xff}, {0x04, 0x01}, {0x04, 0x01, 0x00}},
	}
	// full cube K=3
	pals3 := []palette{
		{Times: []int{0, 1, 2}, IDs: ids3[0], Cids: mkCids(3, *seed, false)},
		{Times: []int{0, 1 << 31, maxI}, IDs: ids3[1], Cids: mkCids(3, *seed+1, true)},
	}
	if *tier == "thorough" {
		pals3 = append(pals3,
			palette{Times: []int{maxI - 2, maxI - 1, maxI}, IDs: ids3[2], Cids: mkCids(3, *seed+2, false)},
			palette{Times: []int{1, 1 << 32, 1 << 62}, IDs: ids3[0], Cids: mkCids(3, *seed+3, true)},
		)
	}
	// K=2 cubes with many concrete value pairs
	timePairs := [][]int{{0, 1}, {0, maxI}, {maxI - 1, maxI}, {1 << 31, 1<<31 + 1}, {1, 1 << 62}, {7, 8},
		{-1, 0}, {-1, 1}, {minI, maxI}, {-1, maxI}, {minI, 0}, {minI, minI + 1}, {-2, maxI - 1}}
	idPairs := [][][]byte{{[]byte("a"), []byte("b")}, {[]byte("a"), []byte("aa")}, {{0x00}, {0xff}}, {{0x04, 0x7f}, {0x04, 0x80}}}
	var pals2 []palette
	for i, tp := range timePairs {
		pals2 = append(pals2, palette{Times: tp, IDs: idPairs[i%len(idPairs)], Cids: mkCids(2, *seed+int64(10+i), i%2 == 0)})
	}

	f, err := os.Create(*outPath)
	if err != nil {
		fmt.Fprintln(os.Stderr, "harness:", err)
		return 2
	}
	defer f.Close()
	bw := bufio.NewWriterSize(f, 1<<20)
	enc := json.NewEncoder(bw)
	nTri, nSort := 0, 0
	type hdr struct {
		K       string `json:"k"`
		Tier    string `json:"tier"`
		Pal3    int    `json:"pal3"`
		Pal2    int    `json:"pal2"`
		WantTri int    `json:"want_tri"`
	}
	_ = enc.Encode(hdr{K: "hdr", Tier: *tier, Pal3: len(pals3), Pal2: len(pals2), WantTri: len(pals3)*27*27*27 + len(pals2)*8*8*8})

	emitCube := func(pi int, p *palette, k int) {
		cb := cube(k)
		for _, a := range cb {
			for _, b := range cb {
				for _, c := range cb {
					rec := triRec{K: "tri", Pal: pi, A: a, B: b, C: c, Obs: observe(p, a, b, c)}
					_ = enc.Encode(&rec)
					nTri++
				}
			}
		}
	}
	for i := range pals3 {
		emitCube(i, &pals3[i], 3)
	}
	for i := range pals2 {
		emitCube(100+i, &pals2[i], 2)
	}

	// sorting: every list of length <= 3 over the K=2 cube, plus seeded longer lists over the K=3 cube
	emitSort := func(pi int, p *palette, items []tri) {
		for _, fn := range []string{"LWW", "FWW", "HASH", "CLK"} {
			for _, rev := range []bool{false, true} {
				for _, wrapped := range []bool{false, true} {
					if wrapped && (fn == "CLK" || fn == "FWW") {
						continue
					}
					rec := sortRec{K: "sort", Pal: pi, Fn: fn, Rev: rev, Wrapped: wrapped, Items: items}
					rec.Out1 = doSort(p, fn, rev, wrapped, items)
					rec.Out2 = doSort(p, fn, rev, wrapped, items)
					_ = enc.Encode(&rec)
					nSort++
				}
			}
		}
	}
	cb2 := cube(2)
	p2 := &pals2[0]
	emitSort(100, p2, []tri{})
	for _, a := range cb2 {
		emitSort(100, p2, []tri{a})
		for _, b := range cb2 {
			emitSort(100, p2, []tri{a, b})
			if *tier == "thorough" {
				for _, c := range cb2 {
					emitSort(100, p2, []tri{a, b, c})
				}
			}
		}
	}
	rnd := rand.New(rand.NewSource(*seed))
	cb3 := cube(3)
	nRandom := 150
	if *tier == "thorough" {
		nRandom = 1500
	}
	for i := 0; i < nRandom; i++ {
		n := 3 + rnd.Intn(10)
		items := make([]tri, n)
		for j := range items {
			items[j] = cb3[rnd.Intn(len(cb3))]
		}
		emitSort(i%len(pals3), &pals3[i%len(pals3)], items)
	}
	if err := bw.Flush(); err != nil {
		fmt.Fprintln(os.Stderr, "harness:", err)
		return 2
	}
	fmt.Printf("sortrun: tri=%d sort=%d\n", nTri, nSort)
	return 0
}
