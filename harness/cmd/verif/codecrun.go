package main

import (
	"bufio"
	"bytes"
	"context"
	"crypto/sha256"
	"encoding/base64"
	"encoding/hex"
	"encoding/json"
	"flag"
	"fmt"
	"math"
	"math/rand"
	"os"
	"sort"
	"strings"

	ipfslog "berty.tech/go-ipfs-log"
	"berty.tech/go-ipfs-log/enc"
	"berty.tech/go-ipfs-log/entry"
	"berty.tech/go-ipfs-log/entry/sorting"
	idp "berty.tech/go-ipfs-log/identityprovider"
	"berty.tech/go-ipfs-log/iface"
	"berty.tech/go-ipfs-log/io/pb"
	ks "berty.tech/go-ipfs-log/keystore"
	"github.com/ipfs/go-cid"
	ds "github.com/ipfs/go-datastore"
	dssync "github.com/ipfs/go-datastore/sync"
	cbornode "github.com/ipfs/go-ipld-cbor"
	dag "github.com/ipfs/go-merkledag"
	"github.com/libp2p/go-libp2p/core/crypto"
	"github.com/multiformats/go-multibase"
	mh "github.com/multiformats/go-multihash"

	"verif/harness/fakeipfs"
	"verif/harness/world"
)

func init() { register("codecrun", codecrun) }

// ---- obligations as exported by Codec.tla ------------------------------------

type absEntry struct {
	Payload []string `json:"payload"`
	ID      string   `json:"id"`
	Next    []string `json:"next"`
	Refs    []string `json:"refs"`
	V       int      `json:"v"`
	Cid     string   `json:"cid"`
	Ct      int      `json:"ct"`
	Ctb     string   `json:"ctb"`  // clock-time magnitude class: the real time is base(ctb) + ct
	Penc    string   `json:"penc"` // "raw": the payload bytes are those of the symbols; otherwise a textual encoding of them
	Key     string   `json:"key"`
}

// realTime concretises a clock time: "small" as it is, "big53" / "big62" shifted to 2^53 / 2^62
// (integers a float64 cannot all represent)
func (a *absEntry) realTime() int {
	switch a.Ctb {
	case "big53":
		return 1<<53 + a.Ct
	case "big62":
		return 1<<62 + a.Ct
	}
	return a.Ct
}

type dev struct {
	F string `json:"f"`
	D string `json:"d"`
}

type obligation struct {
	K string `json:"k"`
	// c07
	E  *absEntry `json:"e"`
	F  string    `json:"f"`
	E2 *absEntry `json:"e2"`
	// c07sig
	Kind string `json:"kind"`
	// c08
	Payload string `json:"payload"`
	Next    string `json:"next"`
	Refs    string `json:"refs"`
	Clock   string `json:"clock"`
	Codec   string `json:"codec"`
	Ident   string `json:"ident"`
	Via     string `json:"via"`
	// c18
	NNext int    `json:"nnext"`
	NRefs int    `json:"nrefs"`
	WKey  string `json:"wkey"`
	D     string `json:"d"`
	// c12
	Obj  string `json:"obj"`
	Devs []dev  `json:"devs"`
}

// ---- observed records ---------------------------------------------------------

type codecRec struct {
	K    string      `json:"k"`
	Ob   *obligation `json:"ob"`
	Conc int         `json:"conc"` // which concretisation of the abstract classes
	// c07
	OrigOK bool `json:"orig_ok"` // the untouched entry verifies
	MutOK  bool `json:"mut_ok"`  // the modified entry still verifies under the original signature
	Same   bool `json:"same"`    // harness: the modification did not change the concrete bytes (obligation skipped)
	Sealed bool `json:"sealed"`  // evaluated under a link-sealing codec
	// c08
	RoundTrip  bool     `json:"roundtrip"`  // every field equal after write + read
	Diff       []string `json:"diff"`       // fields that differ
	ReEncode   bool     `json:"reencode"`   // re-encoding the decoded entry gives the same CID
	Determ     bool     `json:"determ"`     // encoding the same logical entry again gives the same CID
	CidStr     string   `json:"cid"`        // for the cross-process comparison
	VerifyBack bool     `json:"verifyback"` // the decoded entry verifies
	// c18
	Clear      int `json:"clear"`      // known CIDs found in the raw bytes
	NLinks     int `json:"nlinks"`     // IPLD links of the stored block
	NoKeyLinks int `json:"nokeylinks"` // links a reader without key obtains
	OtherLinks int `json:"otherlinks"` // links a reader with another key obtains
	// c12
	Panic   bool   `json:"panic"`
	Where   string `json:"where"`
	Decoded bool   `json:"decoded"` // decoding returned an entry (otherwise an error)
	// vectors
	Name string `json:"name"`
	OK   bool   `json:"ok"`
	Got  string `json:"got"`
	Want string `json:"want"`
	HErr bool   `json:"herr"`
	Note string `json:"note"`
}

// normalise fills every optional part of a record so that no JSON null is ever written
// (the TLA+ Json reader has no value for null).
func normAbs(a *absEntry) *absEntry {
	if a == nil {
		a = &absEntry{}
	}
	if a.Payload == nil {
		a.Payload = []string{}
	}
	if a.Next == nil {
		a.Next = []string{}
	}
	if a.Refs == nil {
		a.Refs = []string{}
	}
	if a.Ctb == "" {
		a.Ctb = "small"
	}
	if a.Penc == "" {
		a.Penc = "raw"
	}
	return a
}

func normalise(rec *codecRec) {
	if rec.Ob == nil {
		rec.Ob = &obligation{K: rec.K}
	}
	ob := *rec.Ob
	ob.E, ob.E2 = normAbs(ob.E), normAbs(ob.E2)
	if ob.Devs == nil {
		ob.Devs = []dev{}
	}
	rec.Ob = &ob
	if rec.Diff == nil {
		rec.Diff = []string{}
	}
}

type codecEnv struct {
	dev2  *idp.Identity
	ctx   context.Context
	api   *fakeipfs.API
	pool  *world.Pool
	links map[string]cid.Cid
	rnd   *rand.Rand
}

func mkLink(s string) cid.Cid {
	h, _ := mh.Sum([]byte("verif-link-"+s), mh.SHA2_256, -1)
	return cid.NewCidV1(cid.DagCBOR, h)
}

// concretise one payload symbol (class of bytes); variant picks among several representatives
func symBytes(sym string, variant int) []byte {
	pick := func(opts ...string) []byte { return []byte(opts[variant%len(opts)]) }
	switch sym {
	case "a":
		return pick("a", "k", "A", "7")
	case "b":
		return pick("b", "m", "Z", "0")
	case "q":
		return pick("\"", "\\", "<", "&", ">", "\n", " ", "/")
	case "u":
		return pick("é", "€", "😀", "ß")
	case "r":
		return []byte("\xef\xbf\xbd")
	case "x":
		return pick("\xff", "\xc0", "\x80", "\xf5")
	case "y":
		return pick("\xfe", "\xc1", "\xbf", "\xf8")
	case "z":
		return []byte{0}
	}
	return []byte("?")
}

// payloadBytes concretises the payload of an abstract entry, including its textual re-encodings.
func (env *codecEnv) payloadBytes(a *absEntry, variant int) []byte {
	raw := env.payloadOf(a.Payload, variant)
	switch a.Penc {
	case "base64":
		return []byte(base64.StdEncoding.EncodeToString(raw))
	case "urlbase64":
		return []byte(base64.RawURLEncoding.EncodeToString(raw))
	case "hex":
		return []byte(hex.EncodeToString(raw))
	case "jsonstring":
		b, _ := json.Marshal(string(raw))
		return b
	}
	return raw
}

func (env *codecEnv) payloadOf(syms []string, variant int) []byte {
	out := []byte{}
	for _, s := range syms {
		out = append(out, symBytes(s, variant)...)
	}
	return out
}

func (env *codecEnv) linksOf(names []string) []cid.Cid {
	out := []cid.Cid{}
	for _, n := range names {
		out = append(out, env.links[n])
	}
	return out
}

func (env *codecEnv) identityOf(k string) *idp.Identity {
	if k == "k2" {
		return env.pool.W(2)
	}
	return env.pool.W(1)
}

// build the signed entry the abstract entry stands for
func (env *codecEnv) build(a *absEntry, variant int, io iface.IO) (iface.IPFSLogEntry, error) {
	id := env.identityOf(a.Key)
	return entry.CreateEntryWithIO(env.ctx, env.api, id, &entry.Entry{
		LogID: a.ID, Payload: env.payloadBytes(a, variant), Next: env.linksOf(a.Next), Refs: env.linksOf(a.Refs),
		Clock: entry.NewLamportClock(env.identityOf(a.Cid).PublicKey, a.realTime()),
	}, nil, io)
}

func safeVerify(e iface.IPFSLogEntry, p idp.Interface, io iface.IO) (ok bool) {
	defer func() {
		if r := recover(); r != nil {
			ok = false
		}
	}()
	return e.Verify(p, io) == nil
}

func (env *codecEnv) runC07(ob *obligation, variant int, io iface.IO, sealed bool) codecRec {
	rec := codecRec{K: "c07", Ob: ob, Conc: variant, Diff: []string{}, Sealed: sealed}
	e, err := env.build(ob.E, variant, io)
	if err != nil {
		rec.HErr, rec.Note = true, "harness: "+err.Error()
		return rec
	}
	prov := env.pool.W(1).Provider
	rec.OrigOK = safeVerify(e, prov, io)
	m := e.Copy()
	m.SetNext(e.GetNext())
	m.SetRefs(e.GetRefs())
	before := world.Digest(m)
	switch ob.F {
	case "payload":
		m.SetPayload(env.payloadBytes(ob.E2, variant))
	case "id":
		m.SetLogID(ob.E2.ID)
	case "next":
		m.SetNext(env.linksOf(ob.E2.Next))
	case "refs":
		m.SetRefs(env.linksOf(ob.E2.Refs))
	case "v":
		m.SetV(uint64(ob.E2.V))
	case "clock.id":
		m.SetClock(entry.NewLamportClock(env.identityOf(ob.E2.Cid).PublicKey, ob.E2.realTime()))
	case "clock.time":
		m.SetClock(entry.NewLamportClock(env.identityOf(ob.E2.Cid).PublicKey, ob.E2.realTime()))
	case "key":
		m.SetKey(env.identityOf(ob.E2.Key).PublicKey)
	default:
		rec.HErr, rec.Note = true, "harness: unknown field "+ob.F
		return rec
	}
	rec.Same = world.Digest(m) == before
	rec.MutOK = safeVerify(m, prov, io)
	return rec
}

func (env *codecEnv) runC07Sig(ob *obligation, variant int, io iface.IO) codecRec {
	rec := codecRec{K: "c07sig", Ob: ob, Conc: variant, Diff: []string{}}
	a := &absEntry{Payload: []string{"a", "u"}, ID: "X", Next: []string{"c1"}, Refs: []string{}, V: 2, Cid: "k1", Ct: 5, Key: "k1"}
	b := &absEntry{Payload: []string{"b"}, ID: "X", Next: []string{"c1"}, Refs: []string{}, V: 2, Cid: "k1", Ct: 6, Key: "k1"}
	e, err := env.build(a, variant, io)
	e2, err2 := env.build(b, variant, io)
	if err != nil || err2 != nil {
		rec.HErr, rec.Note = true, "harness: cannot build entries"
		return rec
	}
	prov := env.pool.W(1).Provider
	rec.OrigOK = safeVerify(e, prov, io)
	m := e.Copy()
	sig := append([]byte{}, e.GetSig()...)
	switch ob.Kind {
	case "other_entry":
		m.SetSig(e2.GetSig())
	case "bitflip":
		sig[len(sig)/2+variant%4] ^= 1 << uint(variant%8)
		m.SetSig(sig)
	case "truncated":
		m.SetSig(sig[:len(sig)-1-variant%3])
	case "empty":
		m.SetSig([]byte{})
	}
	rec.MutOK = safeVerify(m, prov, io)
	return rec
}

// ---- C08 -----------------------------------------------------------------------

func (env *codecEnv) c08Payload(class string, variant int) []byte {
	switch class {
	case "empty":
		return []byte{}
	case "ascii":
		return []byte(fmt.Sprintf("hello-%d", variant))
	case "jsonspecial":
		return []byte("q\"uo\\te<&>\n\t  {\"a\":[1,2]}")
	case "multibyte":
		return []byte("héllo wörld € 😀 日本語")
	case "invalidutf8":
		b := make([]byte, 6+variant)
		env.rnd.Read(b)
		return append([]byte{0xff, 0xfe, 0xc0}, b...)
	case "nul":
		return []byte{0, 'a', 0, 0, 'b', 0}
	case "binary256":
		b := make([]byte, 256)
		for i := range b {
			b[i] = byte(i)
		}
		return b
	case "long":
		b := make([]byte, 70000)
		env.rnd.Read(b)
		return b
	}
	return []byte("?")
}

func c08Links(shape string, env *codecEnv) []cid.Cid {
	switch shape {
	case "nil":
		return nil
	case "empty":
		return []cid.Cid{}
	case "one":
		return []cid.Cid{env.links["c1"]}
	}
	return []cid.Cid{env.links["c2"], env.links["c1"]}
}

func c08Clock(class string) int {
	switch class {
	case "zero":
		return 0
	case "small":
		return 7
	case "big31":
		return 1 << 31
	}
	return math.MaxInt64
}

func cidsEq(a, b []cid.Cid) bool {
	if len(a) != len(b) {
		return false
	}
	for i := range a {
		if !a[i].Equals(b[i]) {
			return false
		}
	}
	return true
}

func (env *codecEnv) runC08(ob *obligation, variant int) codecRec {
	rec := codecRec{K: "c08", Ob: ob, Conc: variant, Diff: []string{}}
	io, err := world.Codec(ob.Codec)
	if err != nil {
		rec.HErr, rec.Note = true, "harness: "+err.Error()
		return rec
	}
	id := env.pool.W(1)
	if ob.Ident == "dev2" && env.dev2 != nil {
		id = env.dev2
	}
	src := &entry.Entry{LogID: "C8", Payload: env.c08Payload(ob.Payload, variant), Next: c08Links(ob.Next, env), Refs: c08Links(ob.Refs, env),
		Clock: entry.NewLamportClock(id.PublicKey, c08Clock(ob.Clock))}
	e, err := entry.CreateEntryWithIO(env.ctx, env.api, id, src, nil, io)
	if err != nil {
		rec.HErr, rec.Note = true, "harness: create: "+err.Error()
		return rec
	}
	if ob.Via == "direct" {
		// the caller assembles the signed entry itself and writes it as it is: the link lists keep the exact shape
		// of the obligation (nil stays nil), nothing is normalised on the way to the encoder
		raw := e.Copy()
		raw.SetNext(c08Links(ob.Next, env))
		raw.SetRefs(c08Links(ob.Refs, env))
		h, err := entry.ToMultihashWithIO(env.ctx, raw, env.api, nil, io)
		if err != nil {
			rec.HErr, rec.Note = true, "harness: direct write: "+err.Error()
			return rec
		}
		raw.SetHash(h)
		e = raw
	}
	rec.CidStr = e.GetHash().String()
	back, err := entry.FromMultihashWithIO(env.ctx, env.api, e.GetHash(), id.Provider, io)
	if err != nil {
		rec.Diff = append(rec.Diff, "decode-error")
		return rec
	}
	diff := func(name string, same bool) {
		if !same {
			rec.Diff = append(rec.Diff, name)
		}
	}
	diff("payload", bytes.Equal(back.GetPayload(), e.GetPayload()))
	diff("id", back.GetLogID() == e.GetLogID())
	diff("next", cidsEq(back.GetNext(), e.GetNext()))
	diff("refs", cidsEq(back.GetRefs(), e.GetRefs()))
	diff("v", back.GetV() == e.GetV())
	diff("key", bytes.Equal(back.GetKey(), e.GetKey()))
	diff("sig", bytes.Equal(back.GetSig(), e.GetSig()))
	diff("hash", back.GetHash().Equals(e.GetHash()))
	diff("clock.id", back.GetClock() != nil && bytes.Equal(back.GetClock().GetID(), e.GetClock().GetID()))
	diff("clock.time", back.GetClock() != nil && back.GetClock().GetTime() == e.GetClock().GetTime())
	bi, ei := back.GetIdentity(), e.GetIdentity()
	diff("identity", bi != nil && ei != nil && bi.ID == ei.ID && bytes.Equal(bi.PublicKey, ei.PublicKey) && bi.Type == ei.Type &&
		bi.Signatures != nil && bytes.Equal(bi.Signatures.ID, ei.Signatures.ID) && bytes.Equal(bi.Signatures.PublicKey, ei.Signatures.PublicKey))
	rec.RoundTrip = len(rec.Diff) == 0
	rec.VerifyBack = safeVerify(back, id.Provider, io)
	// re-encode the decoded entry
	if h2, err := entry.ToMultihashWithIO(env.ctx, back, env.api, nil, io); err == nil {
		rec.ReEncode = h2.Equals(e.GetHash())
	}
	// the same logical entry again
	if ob.Via == "direct" {
		again := e.Copy()
		again.SetNext(c08Links(ob.Next, env))
		again.SetRefs(c08Links(ob.Refs, env))
		if h3, err := entry.ToMultihashWithIO(env.ctx, again, env.api, nil, io); err == nil {
			rec.Determ = h3.Equals(e.GetHash())
		}
	} else if e2, err := entry.CreateEntryWithIO(env.ctx, env.api, id, src, nil, io); err == nil {
		rec.Determ = e2.GetHash().Equals(e.GetHash())
	}
	return rec
}

// ---- C12 -----------------------------------------------------------------------

func validWire(env *codecEnv) map[string]interface{} {
	id := env.pool.W(1)
	return map[string]interface{}{
		"v": 2, "id": "W", "key": hex.EncodeToString(id.PublicKey), "sig": "3045022100aa", "hash": nil,
		"next": []interface{}{env.links["c1"]}, "refs": []interface{}{env.links["c2"]},
		"clock":   map[string]interface{}{"id": hex.EncodeToString(id.PublicKey), "time": 3},
		"payload": "hello",
		"identity": map[string]interface{}{"id": id.ID, "publicKey": hex.EncodeToString(id.PublicKey), "type": "orbitdb",
			"signatures": map[string]interface{}{"id": hex.EncodeToString(id.Signatures.ID), "publicKey": hex.EncodeToString(id.Signatures.PublicKey)}},
	}
}

func wrongType(field string, variant int) interface{} {
	// a value of a type the field never has
	switch field {
	case "v", "clock.time":
		return []interface{}{"seven", map[string]interface{}{"x": 1}, []interface{}{1, 2}, true}[variant%4]
	case "next", "refs", "heads":
		return []interface{}{"notalist", 42, map[string]interface{}{"a": 1}, []interface{}{1, "x"}}[variant%4]
	case "clock", "identity", "identity.signatures":
		return []interface{}{"notamap", 7, []interface{}{1}, true}[variant%4]
	}
	return []interface{}{42, []interface{}{"a"}, map[string]interface{}{"a": 1}, true}[variant%4]
}

func badValue(field string, variant int) interface{} {
	// right type, nonsensical content
	switch field {
	case "v":
		return []interface{}{-1, 99, 1 << 40, 0}[variant%4]
	case "clock.time":
		return []interface{}{-5, math.MinInt64, 1 << 62, -1}[variant%4]
	case "next", "refs", "heads":
		return []interface{}{[]interface{}{}, []interface{}{[]byte{0, 1, 2}}, []interface{}{nil}, []interface{}{""}}[variant%4]
	case "clock", "identity", "identity.signatures":
		return map[string]interface{}{}
	case "key", "sig", "clock.id", "identity.publicKey", "identity.signatures.id", "identity.signatures.publicKey":
		return []interface{}{"zz-not-hex", "0", "", "abc"}[variant%4]
	}
	return []interface{}{"", strings.Repeat("x", 5000), "\xff\xfe", "\x00"}[variant%4]
}

func applyDev(m map[string]interface{}, d dev, variant int) {
	parts := strings.Split(d.F, ".")
	cur := m
	for i := 0; i < len(parts)-1; i++ {
		nxt, ok := cur[parts[i]].(map[string]interface{})
		if !ok {
			return
		}
		cur = nxt
	}
	last := parts[len(parts)-1]
	switch d.D {
	case "absent":
		delete(cur, last)
	case "null":
		cur[last] = nil
	case "wrongtype":
		cur[last] = wrongType(d.F, variant)
	case "badvalue":
		cur[last] = badValue(d.F, variant)
	}
}

// every accessor, comparison and verification on a decoded entry
func exerciseEntry(e iface.IPFSLogEntry, other iface.IPFSLogEntry, p idp.Interface, io iface.IO) (where string, panicked bool) {
	step := ""
	defer func() {
		if r := recover(); r != nil {
			where, panicked = step, true
		}
	}()
	step = "getters"
	_ = e.GetPayload()
	_ = e.GetLogID()
	_ = e.GetNext()
	_ = e.GetRefs()
	_ = e.GetV()
	_ = e.GetKey()
	_ = e.GetSig()
	_ = e.GetIdentity()
	_ = e.GetHash()
	_ = e.GetAdditionalData()
	step = "clock"
	if c := e.GetClock(); c != nil {
		_ = c.GetID()
		_ = c.GetTime()
		_ = c.Defined()
	}
	step = "IsValid"
	_ = e.IsValid()
	step = "Copy"
	_ = e.Copy()
	step = "Equals"
	_ = e.Equals(other)
	_ = other.Equals(e)
	step = "IsParent"
	_ = e.IsParent(other)
	_ = other.IsParent(e)
	step = "Verify"
	_ = e.Verify(p, io)
	step = "comparators"
	for _, fn := range []func(a, b iface.IPFSLogEntry) (int, error){sorting.LastWriteWins, sorting.FirstWriteWins, sorting.SortByEntryHash, sorting.Compare} {
		_, _ = fn(e, other)
		_, _ = fn(other, e)
	}
	step = "Sort"
	sorting.Sort(sorting.NoZeroes(sorting.LastWriteWins), []iface.IPFSLogEntry{e, other, e}, false)
	step = "FindChildren"
	_ = entry.FindChildren(e, []iface.IPFSLogEntry{other, e})
	step = "log"
	om := entry.NewOrderedMapFromEntries([]iface.IPFSLogEntry{e, other})
	_ = entry.FindHeads(om)
	return "", false
}

func (env *codecEnv) runC12(ob *obligation, variant int) codecRec {
	rec := codecRec{K: "c12", Ob: ob, Conc: variant, Diff: []string{}}
	io, _ := world.Codec("cbor")
	id := env.pool.W(1)
	other, err := entry.CreateEntryWithIO(env.ctx, env.api, id, &entry.Entry{LogID: "W", Payload: []byte("other")}, nil, io)
	if err != nil {
		rec.HErr, rec.Note = true, "harness: "+err.Error()
		return rec
	}
	var wire map[string]interface{}
	switch ob.Obj {
	case "manifest":
		wire = map[string]interface{}{"id": "W", "heads": []interface{}{env.links["c1"], other.GetHash()}}
	default:
		wire = validWire(env)
	}
	for _, d := range ob.Devs {
		applyDev(wire, d, variant)
	}
	if ob.Obj == "entryv0" {
		return env.runC12V0(ob, variant, wire, other, rec)
	}
	node, err := cbornode.WrapObject(wire, mh.SHA2_256, -1)
	if err != nil {
		rec.Note = "not encodable: " + err.Error() // the shape cannot exist as a block
		rec.Decoded = false
		return rec
	}
	env.api.D.Put(node)
	func() {
		step := "decode"
		defer func() {
			if r := recover(); r != nil {
				rec.Panic, rec.Where = true, step+fmt.Sprintf(": %v", r)
			}
		}()
		if ob.Obj == "manifest" {
			res, err := io.Read(env.ctx, env.api, node.Cid())
			if err != nil {
				return
			}
			jl, err := io.DecodeRawJSONLog(res)
			if err != nil || jl == nil {
				return
			}
			rec.Decoded = true
			step = "load"
			l, err := ipfslog.NewFromMultihash(env.ctx, env.api, id, node.Cid(), &ipfslog.LogOptions{}, &ipfslog.FetchOptions{})
			if err == nil && l != nil {
				_ = l.Values()
				_ = l.Heads()
			}
			return
		}
		e, err := entry.FromMultihashWithIO(env.ctx, env.api, node.Cid(), id.Provider, io)
		if err != nil || e == nil {
			return
		}
		rec.Decoded = true
		if where, p := exerciseEntry(e, other, id.Provider, io); p {
			rec.Panic, rec.Where = true, "accessor: "+where
		}
	}()
	return rec
}

func (env *codecEnv) runC12V0(ob *obligation, variant int, wire map[string]interface{}, other iface.IPFSLogEntry, rec codecRec) codecRec {
	pbio, _ := pb.IO(&entry.Entry{}, &entry.LamportClock{})
	id := env.pool.W(1)
	// the legacy block: a dag-pb node whose data is the JSON of the v0 entry
	v0 := map[string]interface{}{"hash": nil, "id": "W", "payload": "hello", "next": []interface{}{}, "v": 0,
		"clock": map[string]interface{}{"id": hex.EncodeToString(id.PublicKey), "time": 0}, "key": hex.EncodeToString(id.PublicKey), "sig": "3045"}
	for _, d := range ob.Devs {
		applyDev(v0, d, variant)
	}
	raw, err := json.Marshal(v0)
	if err != nil {
		rec.Note = "not encodable"
		return rec
	}
	node := &dag.ProtoNode{}
	node.SetData(raw)
	env.api.D.Put(node)
	func() {
		step := "decode"
		defer func() {
			if r := recover(); r != nil {
				rec.Panic, rec.Where = true, step+fmt.Sprintf(": %v", r)
			}
		}()
		e, err := entry.FromMultihashWithIO(env.ctx, env.api, node.Cid(), id.Provider, pbio)
		if err != nil || e == nil {
			return
		}
		rec.Decoded = true
		if where, p := exerciseEntry(e, other, id.Provider, pbio); p {
			rec.Panic, rec.Where = true, "accessor: "+where
		}
	}()
	return rec
}

// ---- C18 via direct entry creation -------------------------------------------------

func (env *codecEnv) runC18(ob *obligation, variant int) codecRec {
	rec := codecRec{K: "c18", Ob: ob, Conc: variant, Diff: []string{}}
	io, err := world.Codec(ob.WKey)
	if err != nil {
		rec.HErr, rec.Note = true, "harness: "+err.Error()
		return rec
	}
	id := env.pool.W(1)
	all := []cid.Cid{env.links["c1"], env.links["c2"], env.links["c3"], mkLink(fmt.Sprint("x", variant))}
	next := append([]cid.Cid{}, all[:ob.NNext]...)
	refs := append([]cid.Cid{}, all[4-ob.NRefs:]...)
	e, err := entry.CreateEntryWithIO(env.ctx, env.api, id, &entry.Entry{LogID: "C18", Payload: env.c08Payload(ob.Payload, variant), Next: next, Refs: refs,
		Clock: entry.NewLamportClock(id.PublicKey, 3+variant)}, nil, io)
	if err != nil {
		rec.HErr, rec.Note = true, "harness: create: "+err.Error()
		return rec
	}
	node := env.api.D.Raw(e.GetHash())
	raw := node.RawData()
	rec.NLinks = len(node.Links())
	for _, c := range append(append([]cid.Cid{}, next...), refs...) {
		forms := [][]byte{c.Bytes(), []byte(c.String())}
		if b58, err := c.StringOfBase(multibase.Base58BTC); err == nil {
			forms = append(forms, []byte(b58))
		}
		for _, f := range forms {
			if bytes.Contains(raw, f) {
				rec.Clear++
				break
			}
		}
	}
	back, err := entry.FromMultihashWithIO(env.ctx, env.api, e.GetHash(), id.Provider, io)
	if err == nil && back != nil {
		rec.RoundTrip = cidsEq(back.GetNext(), e.GetNext()) && cidsEq(back.GetRefs(), e.GetRefs()) && bytes.Equal(back.GetPayload(), e.GetPayload())
		rec.VerifyBack = safeVerify(back, id.Provider, io)
	}
	other := "cbor+lk2"
	if ob.WKey == "cbor+lk2" {
		other = "cbor+lk1"
	}
	for i, codec := range []string{"cbor", other} {
		rio, _ := world.Codec(codec)
		n := 0
		if b, err := entry.FromMultihashWithIO(env.ctx, env.api, e.GetHash(), id.Provider, rio); err == nil && b != nil {
			n = len(b.GetNext()) + len(b.GetRefs())
		}
		if i == 0 {
			rec.NoKeyLinks = n
		} else {
			rec.OtherLinks = n
		}
	}
	return rec
}

// ---- C12: deviations inside the encrypted links of a link-keyed block -----------------

func cborText(s string) []byte { return append([]byte{0x60 + byte(len(s))}, []byte(s)...) }

func cborLink(inner []byte) []byte {
	out := []byte{0xd8, 0x2a}
	if len(inner) < 24 {
		out = append(out, 0x40+byte(len(inner)))
	} else {
		out = append(out, 0x58, byte(len(inner)))
	}
	return append(out, inner...)
}

func (env *codecEnv) encLinksValue(d string, variant int) []byte {
	good := append([]byte{0}, env.links["c1"].Bytes()...)
	switch d {
	case "valid":
		return append([]byte{0x81}, cborLink(good)...)
	case "emptylink":
		return append([]byte{0x81}, cborLink([]byte{})...)
	case "badmultibase":
		bad := append([]byte{1}, env.links["c1"].Bytes()...)
		return append([]byte{0x81}, cborLink(bad)...)
	case "garbagelink":
		return append([]byte{0x81}, cborLink([]byte{0, 1, 2, 3, byte(variant)})...)
	case "wrongtype":
		return append([]byte{0x81}, cborText("abc")...)
	case "null":
		return []byte{0xf6}
	case "notalist":
		return cborText("zz")
	case "truncated":
		return append([]byte{0x82}, cborLink(good)...) // announces two elements, carries one
	}
	return []byte{0x80}
}

func (env *codecEnv) runC12Enc(ob *obligation, variant int) codecRec {
	rec := codecRec{K: "c12enc", Ob: ob, Conc: variant, Diff: []string{}}
	key := bytes.Repeat([]byte{0x11}, enc.SecretBoxKeySize) // the key of codec cbor+lk1
	sk, err := enc.NewSecretbox(key)
	if err != nil {
		rec.HErr, rec.Note = true, "harness: "+err.Error()
		return rec
	}
	io, _ := world.Codec("cbor+lk1")
	id := env.pool.W(1)
	other, err := entry.CreateEntryWithIO(env.ctx, env.api, id, &entry.Entry{LogID: "W", Payload: []byte("other")}, nil, io)
	if err != nil {
		rec.HErr, rec.Note = true, "harness: "+err.Error()
		return rec
	}
	// inner value: {"next": X, "refs": []} or {"next": [], "refs": X}
	inner := []byte{0xa2}
	for _, f := range []string{"next", "refs"} {
		inner = append(inner, cborText(f)...)
		if f == ob.F {
			inner = append(inner, env.encLinksValue(ob.D, variant)...)
		} else {
			inner = append(inner, 0x80)
		}
	}
	nonce := bytes.Repeat([]byte{byte(7 + variant)}, enc.SecretBoxNonceSize)
	sealed, err := sk.SealWithNonce(inner, nonce)
	if err != nil {
		rec.HErr, rec.Note = true, "harness: "+err.Error()
		return rec
	}
	wire := validWire(env)
	wire["next"] = []interface{}{}
	wire["refs"] = []interface{}{}
	wire["enc_links"] = base64.StdEncoding.EncodeToString(sealed)
	wire["enc_links_nonce"] = base64.StdEncoding.EncodeToString(nonce)
	node, err := cbornode.WrapObject(wire, mh.SHA2_256, -1)
	if err != nil {
		rec.HErr, rec.Note = true, "harness: "+err.Error()
		return rec
	}
	env.api.D.Put(node)
	func() {
		step := "decode"
		defer func() {
			if r := recover(); r != nil {
				rec.Panic, rec.Where = true, step+fmt.Sprintf(": %v", r)
			}
		}()
		e, err := entry.FromMultihashWithIO(env.ctx, env.api, node.Cid(), id.Provider, io)
		if err != nil || e == nil {
			return
		}
		rec.Decoded = true
		if where, p := exerciseEntry(e, other, id.Provider, io); p {
			rec.Panic, rec.Where = true, "accessor: "+where
		}
	}()
	return rec
}

// raw byte classes: random, truncated, bit-flipped encodings of a valid entry
func (env *codecEnv) runRaw(n int) []codecRec {
	var out []codecRec
	io, _ := world.Codec("cbor")
	pbio, _ := pb.IO(&entry.Entry{}, &entry.LamportClock{})
	id := env.pool.W(1)
	good, err := entry.CreateEntryWithIO(env.ctx, env.api, id, &entry.Entry{LogID: "W", Payload: []byte("raw"), Next: []cid.Cid{env.links["c1"]}}, nil, io)
	if err != nil {
		return []codecRec{{K: "c12raw", HErr: true, Note: "harness: " + err.Error(), Diff: []string{}}}
	}
	valid := env.api.D.Raw(good.GetHash()).RawData()
	for i := 0; i < n; i++ {
		var raw []byte
		class := ""
		switch i % 4 {
		case 0:
			class = "random"
			raw = make([]byte, 1+env.rnd.Intn(200))
			env.rnd.Read(raw)
		case 1:
			class = "truncated"
			raw = append([]byte{}, valid[:env.rnd.Intn(len(valid))]...)
		case 2:
			class = "bitflip"
			raw = append([]byte{}, valid...)
			for k := 0; k < 1+env.rnd.Intn(3); k++ {
				raw[env.rnd.Intn(len(raw))] ^= 1 << uint(env.rnd.Intn(8))
			}
		default:
			class = "spliced"
			raw = append(append([]byte{}, valid[:len(valid)/2]...), valid[:len(valid)/3]...)
		}
		rec := codecRec{K: "c12raw", Conc: i, Note: class, Diff: []string{}, Ob: &obligation{K: "c12raw", Kind: class}}
		h, _ := mh.Sum(raw, mh.SHA2_256, -1)
		c := cid.NewCidV1(cid.DagCBOR, h)
		env.api.D.SetReplace(c, raw)
		for _, codec := range []iface.IO{io, pbio} {
			func() {
				defer func() {
					if r := recover(); r != nil {
						rec.Panic, rec.Where = true, fmt.Sprintf("decode: %v", r)
					}
				}()
				e, err := entry.FromMultihashWithIO(env.ctx, env.api, c, id.Provider, codec)
				if err == nil && e != nil {
					rec.Decoded = true
					if where, p := exerciseEntry(e, good, id.Provider, codec); p {
						rec.Panic, rec.Where = true, "accessor: "+where
					}
				}
				res, err := codec.Read(env.ctx, env.api, c)
				if err == nil {
					_, _ = codec.DecodeRawJSONLog(res)
				}
			}()
		}
		out = append(out, rec)
	}
	return out
}

// ---- pinned interoperability vectors --------------------------------------------

func mustHex(s string) []byte {
	b, err := hex.DecodeString(s)
	if err != nil {
		panic(err)
	}
	return b
}

func (env *codecEnv) runVectors() []codecRec {
	var out []codecRec
	add := func(name string, got, want string) {
		out = append(out, codecRec{K: "vector", Name: name, OK: got == want, Got: got, Want: want, Diff: []string{}})
	}
	ctx := env.ctx
	store := dssync.MutexWrap(ds.NewMapDatastore())
	_ = store.Put(ctx, ds.NewKey("userA"), mustHex("0a135ce157a9ccb8375c2fae0d472f1eade4b40b37704c02df923b78ca03c627"))
	_ = store.Put(ctx, ds.NewKey("03e0480538c2a39951d054e17ff31fde487cb1031d0044a037b53ad2e028a3e77c"), mustHex("97f64ca2bf7bd6aa2136eb0aa3ce512433bd903b91d48b2208052d6ff286d080"))
	keystore, err := ks.NewKeystore(store)
	if err != nil {
		return []codecRec{{K: "vector", Name: "setup", HErr: true, Note: err.Error(), Diff: []string{}}}
	}
	identity, err := idp.CreateIdentity(ctx, &idp.CreateIdentityOptions{Keystore: keystore, ID: "userA", Type: "orbitdb"})
	if err != nil {
		return []codecRec{{K: "vector", Name: "setup", HErr: true, Note: err.Error(), Diff: []string{}}}
	}
	add("identity.id", identity.ID, "03e0480538c2a39951d054e17ff31fde487cb1031d0044a037b53ad2e028a3e77c")
	add("identity.publicKey", hex.EncodeToString(identity.PublicKey), "048bef2231e64d5c7147bd4b8afb84abd4126ee8d8335e4b069ac0a65c7be711cea5c1b8d47bc20ebaecdca588600ddf2894675e78b2ef17cf49e7bbaf98080361")
	add("identity.signatures.id", hex.EncodeToString(identity.Signatures.ID), "3045022100f5f6f10571d14347aaf34e526ce3419fd64d75ffa7aa73692cbb6aeb6fbc147102203a3e3fa41fa8fcbb9fc7c148af5b640e2f704b20b3a4e0b93fc3a6d44dffb41e")
	add("identity.signatures.publicKey", hex.EncodeToString(identity.Signatures.PublicKey), "3044022020982b8492be0c184dc29de0a3a3bd86a86ba997756b0bf41ddabd24b47c5acf02203745fda39d7df650a5a478e52bbe879f0cb45c074025a93471414a56077640a4")
	b32 := func(s string) string {
		c, err := cid.Decode(s)
		if err != nil {
			return "bad:" + s
		}
		return c.String()
	}
	api := fakeipfs.New()
	e1, err := entry.CreateEntry(ctx, api, identity, &entry.Entry{Payload: []byte("hello"), LogID: "A"}, nil)
	if err == nil {
		add("v2 hello", e1.GetHash().String(), b32("zdpuAsPdzSyeux5mFsFV1y3WeHAShGNi4xo22cYBYWUdPtxVB"))
	}
	e2, err := entry.CreateEntry(ctx, api, identity, &entry.Entry{Payload: []byte("hello world"), LogID: "A"}, nil)
	if err == nil {
		add("v2 hello world", e2.GetHash().String(), b32("zdpuAyvJU3TS7LUdfRxwAnJorkz6NfpAWHGypsQEXLZxcCCRC"))
		e3, err := entry.CreateEntry(ctx, api, identity, &entry.Entry{Payload: []byte("hello again"), LogID: "A", Next: []cid.Cid{e2.GetHash()},
			Clock: entry.NewLamportClock(identity.PublicKey, 1)}, nil)
		if err == nil {
			add("v2 hello again (next, clock 1)", e3.GetHash().String(), b32("zdpuAqsN9Py4EWSfrGYZS8tuokWuiTd9zhS8dhr9XpSGQajP2"))
		}
		e4, err := entry.CreateEntry(ctx, api, identity, &entry.Entry{Payload: []byte("hello again"), LogID: "A", Next: []cid.Cid{e2.GetHash()}}, nil)
		if err == nil {
			add("v2 hello again (next, clock 0)", e4.GetHash().String(), b32("zdpuAnRGWKPkMHqumqdkRJtzbyW6qAGEiBRv61Zj3Ts4j9tQF"))
			back, err := entry.FromMultihash(ctx, api, e4.GetHash(), identity.Provider)
			if err == nil {
				add("v2 read back payload", string(back.GetPayload()), "hello again")
				add("v2 read back next", back.GetNext()[0].String(), e2.GetHash().String())
			}
		}
	}
	// legacy v0 (dag-pb + JSON)
	pbio, _ := pb.IO(&entry.Entry{}, &entry.LamportClock{})
	k0 := mustHex("0411a0d38181c9374eca3e480ecada96b1a4db9375c5e08c3991557759d22f6f2f902d0dc5364a948035002504d825308b0c257b7cbb35229c2076532531f8f4ef")
	s0 := mustHex("3044022062f4cfc8b8f3cc01283b25eab3eeb295614bb0faa8bd20f026c1487ae663121102207ce415bd7423b66d695338c17122e937259f77d1e86494d3146436f0959fccc6")
	hcid, _ := cid.Decode("Qmc2DEiLirMH73kHpuFPbt3V65sBrnDWkJYSjUQHXXvghT")
	v0hello := &entry.Entry{Hash: hcid, LogID: "A", Payload: []byte("hello"), V: 0, Clock: entry.NewLamportClock(k0, 0), Sig: s0, Key: k0, Next: []cid.Cid{}}
	if h, err := entry.ToMultihashWithIO(ctx, v0hello, api, nil, pbio); err == nil {
		add("v0 hello", h.String(), "Qmc2DEiLirMH73kHpuFPbt3V65sBrnDWkJYSjUQHXXvghT")
		back, err := entry.FromMultihashWithIO(ctx, api, h, identity.Provider, pbio)
		if err == nil {
			add("v0 hello decode payload", string(back.GetPayload()), "hello")
			add("v0 hello decode key", hex.EncodeToString(back.GetKey()), hex.EncodeToString(k0))
			add("v0 hello decode v", fmt.Sprint(back.GetV()), "0")
		} else {
			add("v0 hello decode", "error: "+err.Error(), "ok")
		}
	}
	hw, _ := cid.Decode("QmUKMoRrmsYAzQg1nQiD7Fzgpo24zXky7jVJNcZGiSAdhc")
	v0hw := &entry.Entry{Hash: hw, LogID: "A", Payload: []byte("hello world"), V: 0, Clock: entry.NewLamportClock(k0, 0), Sig: s0, Key: k0, Next: []cid.Cid{}}
	if h, err := pbio.Write(ctx, api, v0hw, nil); err == nil {
		add("v0 hello world", h.String(), "QmenUDpFksTa3Q9KmUJYjebqvHJcTF2sGQaCH7orY7bXKC")
	}
	// manifests: same logical manifest, same identifier; decoding gives it back
	cio, _ := world.Codec("cbor")
	jl := &iface.JSONLog{ID: "A", Heads: []cid.Cid{e1.GetHash(), e2.GetHash()}}
	m1, err1 := cio.Write(ctx, api, jl, nil)
	m2, err2 := cio.Write(ctx, fakeipfs.New(), &iface.JSONLog{ID: "A", Heads: []cid.Cid{e1.GetHash(), e2.GetHash()}}, nil)
	if err1 == nil && err2 == nil {
		add("manifest deterministic", m1.String(), m2.String())
		if res, err := cio.Read(ctx, api, m1); err == nil {
			if d, err := cio.DecodeRawJSONLog(res); err == nil {
				add("manifest decode id", d.ID, "A")
				add("manifest decode heads", fmt.Sprint(d.Heads), fmt.Sprint(jl.Heads))
			}
		}
	}
	return out
}

// secondDevice builds another identity of the same user as pool.W(1): the same name key (so the same id),
// imported into a second keystore that generates its own signing key (different public key and signatures).
func secondDevice(ctx context.Context, pool *world.Pool) *idp.Identity {
	first := pool.W(1)
	for i := 0; i < pool.N(); i++ {
		name := fmt.Sprintf("verif-user-%d", i)
		raw, err := pool.Store.Get(ctx, ds.NewKey(name))
		if err != nil {
			continue
		}
		store := dssync.MutexWrap(ds.NewMapDatastore())
		_ = store.Put(ctx, ds.NewKey(name), raw)
		// the second device's own signing key, seeded (CreateKey would draw it from crypto/rand)
		if priv, err := crypto.UnmarshalSecp256k1PrivateKey(raw); err == nil {
			pub, _ := priv.GetPublic().Raw()
			sum := sha256.Sum256(append([]byte("verif-second-device"), raw...))
			_ = store.Put(ctx, ds.NewKey(hex.EncodeToString(pub)), sum[:])
		}
		keystore, err := ks.NewKeystore(store)
		if err != nil {
			continue
		}
		id, err := idp.CreateIdentity(ctx, &idp.CreateIdentityOptions{Keystore: keystore, ID: name, Type: "orbitdb"})
		if err == nil && id.ID == first.ID {
			return id
		}
	}
	return nil
}

func codecrun(args []string) int {
	fs := flag.NewFlagSet("codecrun", flag.ExitOnError)
	obPath := fs.String("obligations", "", "ndjson of obligations exported by Codec.tla")
	outPath := fs.String("out", "", "observed table (ndjson)")
	only := fs.String("only", "", "comma list of obligation kinds to run (c07,c07sig,c08,c12,raw,vector)")
	conc := fs.Int("conc", 2, "concretisations per obligation")
	c07codec := fs.String("c07codec", "cbor", "codec under which the C07 obligations are evaluated")
	nraw := fs.Int("raw", 400, "raw byte strings for C12")
	seed := fs.Int64("seed", 1, "seed")
	_ = fs.Parse(args)
	want := map[string]bool{}
	for _, k := range strings.Split(*only, ",") {
		if k != "" {
			want[k] = true
		}
	}
	ctx := context.Background()
	if _, err := world.Codec("cbor"); err != nil {
		fmt.Fprintln(os.Stderr, "harness:", err)
		return 2
	}
	pool, err := world.NewPool(ctx, 2, *seed)
	if err != nil {
		fmt.Fprintln(os.Stderr, "harness:", err)
		return 2
	}
	env := &codecEnv{ctx: ctx, api: fakeipfs.New(), pool: pool, rnd: rand.New(rand.NewSource(*seed)),
		links: map[string]cid.Cid{"c1": mkLink("1"), "c2": mkLink("2"), "c3": mkLink("3")}}
	env.dev2 = secondDevice(ctx, pool)
	cio, err := world.Codec(*c07codec)
	if err != nil {
		fmt.Fprintln(os.Stderr, "harness:", err)
		return 2
	}
	f, err := os.Open(*obPath)
	if err != nil {
		fmt.Fprintln(os.Stderr, "harness:", err)
		return 2
	}
	defer f.Close()
	out, err := os.Create(*outPath)
	if err != nil {
		fmt.Fprintln(os.Stderr, "harness:", err)
		return 2
	}
	defer out.Close()
	bw := bufio.NewWriterSize(out, 1<<20)
	enc := json.NewEncoder(bw)
	_ = enc.Encode(map[string]interface{}{"k": "hdr", "seed": *seed, "conc": *conc})
	counts := map[string]int{}
	var cids []string
	sc := bufio.NewScanner(f)
	sc.Buffer(make([]byte, 1<<20), 1<<26)
	for sc.Scan() {
		if len(sc.Bytes()) == 0 {
			continue
		}
		ob := &obligation{}
		if err := json.Unmarshal(sc.Bytes(), ob); err != nil {
			fmt.Fprintln(os.Stderr, "harness: bad obligation:", err)
			return 2
		}
		if len(want) > 0 && !want[ob.K] {
			continue
		}
		for v := 0; v < *conc; v++ {
			var rec codecRec
			switch ob.K {
			case "c07":
				rec = env.runC07(ob, v, cio, *c07codec != "cbor")
			case "c07sig":
				rec = env.runC07Sig(ob, v, cio)
			case "c08":
				rec = env.runC08(ob, v)
				cids = append(cids, rec.CidStr)
			case "c12":
				rec = env.runC12(ob, v)
			case "c12enc":
				rec = env.runC12Enc(ob, v)
			case "c18":
				rec = env.runC18(ob, v)
			default:
				continue
			}
			normalise(&rec)
			_ = enc.Encode(&rec)
			counts[ob.K]++
		}
	}
	if len(want) == 0 || want["raw"] {
		for _, rec := range env.runRaw(*nraw) {
			normalise(&rec)
			_ = enc.Encode(&rec)
			counts["raw"]++
		}
	}
	if len(want) == 0 || want["vector"] {
		for _, rec := range env.runVectors() {
			normalise(&rec)
			_ = enc.Encode(&rec)
			counts["vector"]++
		}
	}
	if err := bw.Flush(); err != nil {
		fmt.Fprintln(os.Stderr, "harness:", err)
		return 2
	}
	sort.Strings(cids)
	sum := sha256.Sum256([]byte(strings.Join(cids, ",")))
	fmt.Printf("codecrun: %v ciddigest=%s\n", counts, hex.EncodeToString(sum[:8]))
	return 0
}
