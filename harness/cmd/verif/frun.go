package main

import (
	"bufio"
	"context"
	"encoding/json"
	"flag"
	"fmt"
	"os"

	"verif/harness/fdriver"
	"verif/harness/ldriver"
	"verif/harness/sched"
	"verif/harness/world"
)

func init() {
	register("fprep", fprep)
	register("frun", frun)
}

type shapeOut struct {
	Shape int                  `json:"shape"`
	D     []fdriver.ModelEntry `json:"D"`
	Reps  []fdriver.RepInfo    `json:"reps"`
}

func loadCfgScripts(cfgPath, scriptsPath string) (*ldriver.Config, [][]ldriver.Op, *world.Pool, error) {
	raw, err := os.ReadFile(cfgPath)
	if err != nil {
		return nil, nil, nil, err
	}
	cfg := &ldriver.Config{}
	if err := json.Unmarshal(raw, cfg); err != nil {
		return nil, nil, nil, err
	}
	scripts, err := readScripts(scriptsPath)
	if err != nil {
		return nil, nil, nil, err
	}
	if _, err := world.Codec("cbor"); err != nil {
		return nil, nil, nil, err
	}
	maxW := 1
	for _, w := range cfg.Writer0 {
		if w > maxW {
			maxW = w
		}
	}
	pool, err := world.NewPool(context.Background(), maxW, cfg.Seed)
	if err != nil {
		return nil, nil, nil, err
	}
	return cfg, scripts, pool, nil
}

// fprep: build the shapes of the given L-scripts and describe them in model terms.
func fprep(args []string) int {
	fs := flag.NewFlagSet("fprep", flag.ExitOnError)
	cfgPath := fs.String("cfg", "", "L config json")
	scriptsPath := fs.String("scripts", "", "L scripts (ndjson)")
	outPath := fs.String("out", "", "shapes (ndjson)")
	_ = fs.Parse(args)
	cfg, scripts, pool, err := loadCfgScripts(*cfgPath, *scriptsPath)
	if err != nil {
		fmt.Fprintln(os.Stderr, "harness:", err)
		return 2
	}
	out, err := os.Create(*outPath)
	if err != nil {
		fmt.Fprintln(os.Stderr, "harness:", err)
		return 2
	}
	defer out.Close()
	bw := bufio.NewWriter(out)
	enc := json.NewEncoder(bw)
	for i, sc := range scripts {
		sh, err := fdriver.BuildShape(context.Background(), cfg, pool, sc)
		if err != nil {
			fmt.Fprintln(os.Stderr, "harness:", err)
			return 2
		}
		_ = enc.Encode(shapeOut{Shape: i + 1, D: sh.D, Reps: sh.Reps})
	}
	_ = bw.Flush()
	fmt.Printf("fprep: shapes=%d\n", len(scripts))
	return 0
}

type fJob struct {
	Inst  string            `json:"inst"`
	Sched []json.RawMessage `json:"sched"`
}

// frun: run loader instances over shapes under TLC-chosen schedules; write the observed trace.
func frun(args []string) int {
	fs := flag.NewFlagSet("frun", flag.ExitOnError)
	cfgPath := fs.String("cfg", "", "L config json")
	scriptsPath := fs.String("scripts", "", "L scripts (ndjson) defining the shapes")
	instPath := fs.String("instances", "", "instances (json array)")
	jobsPath := fs.String("jobs", "", "ndjson of {inst, sched}")
	outPath := fs.String("out", "", "observed trace (ndjson, without header: the caller prepends the instance table)")
	_ = fs.Parse(args)
	cfg, scripts, pool, err := loadCfgScripts(*cfgPath, *scriptsPath)
	if err != nil {
		fmt.Fprintln(os.Stderr, "harness:", err)
		return 2
	}
	raw, err := os.ReadFile(*instPath)
	if err != nil {
		fmt.Fprintln(os.Stderr, "harness:", err)
		return 2
	}
	var insts []*fdriver.Instance
	if err := json.Unmarshal(raw, &insts); err != nil {
		fmt.Fprintln(os.Stderr, "harness:", err)
		return 2
	}
	byName := map[string]*fdriver.Instance{}
	for _, in := range insts {
		byName[in.Name] = in
	}
	shapes := map[int]*fdriver.Shape{}
	ctx := context.Background()
	jf, err := os.Open(*jobsPath)
	if err != nil {
		fmt.Fprintln(os.Stderr, "harness:", err)
		return 2
	}
	defer jf.Close()
	out, err := os.Create(*outPath)
	if err != nil {
		fmt.Fprintln(os.Stderr, "harness:", err)
		return 2
	}
	defer out.Close()
	bw := bufio.NewWriterSize(out, 1<<20)
	enc := json.NewEncoder(bw)
	sc := bufio.NewScanner(jf)
	sc.Buffer(make([]byte, 1<<20), 1<<26)
	runNo, nsteps, followed := 0, 0, 0
	for sc.Scan() {
		if len(sc.Bytes()) == 0 {
			continue
		}
		var job fJob
		if err := json.Unmarshal(sc.Bytes(), &job); err != nil {
			fmt.Fprintln(os.Stderr, "harness: bad job:", err)
			return 2
		}
		inst := byName[job.Inst]
		if inst == nil {
			fmt.Fprintln(os.Stderr, "harness: unknown instance", job.Inst)
			return 2
		}
		sh := shapes[inst.Shape]
		if sh == nil {
			sh, err = fdriver.BuildShape(ctx, cfg, pool, scripts[inst.Shape-1])
			if err != nil {
				fmt.Fprintln(os.Stderr, "harness:", err)
				return 2
			}
			shapes[inst.Shape] = sh
		}
		runNo++
		var schedule []sched.Choice = fdriver.ParseSchedule(job.Sched)
		steps, fin, err := fdriver.RunInstance(ctx, sh, pool, inst, schedule, runNo)
		if err != nil {
			fmt.Fprintln(os.Stderr, "harness: scheduler:", err)
			return 2
		}
		for i := range steps {
			_ = enc.Encode(&steps[i])
		}
		fin.Sched = job.Sched
		if fin.Sched == nil {
			fin.Sched = []json.RawMessage{}
		}
		_ = enc.Encode(fin)
		nsteps += len(steps)
		if fin.Followed {
			followed++
		}
	}
	if err := bw.Flush(); err != nil {
		fmt.Fprintln(os.Stderr, "harness:", err)
		return 2
	}
	fmt.Printf("frun: runs=%d steps=%d followed=%d\n", runNo, nsteps, followed)
	return 0
}
