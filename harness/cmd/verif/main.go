// Command verif is the Go side of the conformance machinery: it replays
// TLC-generated histories / schedules on the real go-ipfs-log code (built from
// /repo's working tree with -tags verif) and writes observed traces that TLC
// then validates against the specification.
package main

import (
	"fmt"
	"os"
)

type cmdFn func(args []string) int

var commands = map[string]cmdFn{}

func register(name string, fn cmdFn) { commands[name] = fn }

func main() {
	if len(os.Args) < 2 {
		fmt.Fprintln(os.Stderr, "usage: verif <command> [flags]")
		for k := range commands {
			fmt.Fprintln(os.Stderr, "  ", k)
		}
		os.Exit(2)
	}
	fn, ok := commands[os.Args[1]]
	if !ok {
		fmt.Fprintln(os.Stderr, "unknown command", os.Args[1])
		os.Exit(2)
	}
	os.Exit(fn(os.Args[2:]))
}
