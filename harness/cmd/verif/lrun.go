package main

import (
	"bufio"
	"context"
	"encoding/json"
	"flag"
	"fmt"
	"os"
	"sync"

	"verif/harness/ldriver"
	"verif/harness/world"
)

func init() { register("lrun", lrun) }

type lHeader struct {
	K        string           `json:"k"`
	Cfg      *ldriver.Config  `json:"cfg"`
	U        []world.EntryRec `json:"U"`
	NScripts int              `json:"nscripts"`
	Mode     string           `json:"mode"`
}

func readScripts(path string) ([][]ldriver.Op, error) {
	f, err := os.Open(path)
	if err != nil {
		return nil, err
	}
	defer f.Close()
	var out [][]ldriver.Op
	sc := bufio.NewScanner(f)
	sc.Buffer(make([]byte, 1<<20), 1<<26)
	for sc.Scan() {
		line := sc.Bytes()
		if len(line) == 0 {
			continue
		}
		var ops []ldriver.Op
		if err := json.Unmarshal(line, &ops); err != nil {
			return nil, fmt.Errorf("bad script line %q: %w", string(line), err)
		}
		out = append(out, ops)
	}
	return out, sc.Err()
}

// lrun: execute scripts of family L and write one observed-trace file.
func lrun(args []string) int {
	fs := flag.NewFlagSet("lrun", flag.ExitOnError)
	cfgPath := fs.String("cfg", "", "config json (constants of IpfsLog.tla)")
	scriptsPath := fs.String("scripts", "", "ndjson, one script (array of ops) per line")
	outPath := fs.String("out", "", "observed trace (ndjson)")
	mode := fs.String("mode", "last", "last: observe only the final op of each script; all: every op")
	workers := fs.Int("workers", 8, "parallel script executions")
	progress := fs.String("progress", "", "file to which 'S <sid>' / 'D <sid>' lines are appended (to find the script running at a crash)")
	complete := fs.Bool("complete", false, "after each script, exchange state by pairwise joins until fixpoint (observed)")
	_ = fs.Parse(args)

	raw, err := os.ReadFile(*cfgPath)
	if err != nil {
		fmt.Fprintln(os.Stderr, "harness:", err)
		return 2
	}
	cfg := &ldriver.Config{}
	if err := json.Unmarshal(raw, cfg); err != nil {
		fmt.Fprintln(os.Stderr, "harness:", err)
		return 2
	}
	scripts, err := readScripts(*scriptsPath)
	if err != nil {
		fmt.Fprintln(os.Stderr, "harness:", err)
		return 2
	}
	ctx := context.Background()
	// the codec singleton is initialised lazily and without synchronisation: do it before going parallel
	if _, err := world.Codec("cbor"); err != nil {
		fmt.Fprintln(os.Stderr, "harness:", err)
		return 2
	}
	maxW := 1
	for _, w := range cfg.Writer0 {
		if w > maxW {
			maxW = w
		}
	}
	for _, op := range flattenOps(scripts) {
		if op.Name() == "SI" && op.Int(2) > maxW {
			maxW = op.Int(2)
		}
	}
	pool, err := world.NewPool(ctx, maxW, cfg.Seed)
	if err != nil {
		fmt.Fprintln(os.Stderr, "harness:", err)
		return 2
	}
	reg := world.NewRegistry(pool)

	var progF *os.File
	var progMu sync.Mutex
	if *progress != "" {
		progF, err = os.OpenFile(*progress, os.O_CREATE|os.O_WRONLY|os.O_APPEND, 0o644)
		if err != nil {
			fmt.Fprintln(os.Stderr, "harness:", err)
			return 2
		}
		defer progF.Close()
	}
	mark := func(tag string, sid int) {
		if progF == nil {
			return
		}
		progMu.Lock()
		fmt.Fprintf(progF, "%s %d\n", tag, sid)
		progMu.Unlock()
	}
	results := make([][]ldriver.Event, len(scripts))
	var wg sync.WaitGroup
	var mu sync.Mutex
	var firstErr error
	jobs := make(chan int, len(scripts))
	for i := range scripts {
		jobs <- i
	}
	close(jobs)
	for w := 0; w < *workers; w++ {
		wg.Add(1)
		go func() {
			defer wg.Done()
			for i := range jobs {
				mark("S", i+1)
				evs, err := ldriver.RunScript(ctx, cfg, pool, reg, i+1, scripts[i], *mode, *complete)
				mark("D", i+1)
				if err != nil {
					mu.Lock()
					if firstErr == nil {
						firstErr = err
					}
					mu.Unlock()
					continue
				}
				results[i] = evs
			}
		}()
	}
	wg.Wait()
	if firstErr != nil {
		fmt.Fprintln(os.Stderr, "harness:", firstErr)
		return 2
	}

	out, err := os.Create(*outPath)
	if err != nil {
		fmt.Fprintln(os.Stderr, "harness:", err)
		return 2
	}
	defer out.Close()
	bw := bufio.NewWriterSize(out, 1<<20)
	enc := json.NewEncoder(bw)
	hdr := lHeader{K: "hdr", Cfg: cfg, U: reg.Universe(), NScripts: len(scripts), Mode: *mode}
	if err := enc.Encode(hdr); err != nil {
		fmt.Fprintln(os.Stderr, "harness:", err)
		return 2
	}
	n := 0
	for _, evs := range results {
		for i := range evs {
			if err := enc.Encode(&evs[i]); err != nil {
				fmt.Fprintln(os.Stderr, "harness:", err)
				return 2
			}
			n++
		}
	}
	if err := bw.Flush(); err != nil {
		fmt.Fprintln(os.Stderr, "harness:", err)
		return 2
	}
	fmt.Printf("lrun: scripts=%d events=%d entries=%d\n", len(scripts), n, reg.Size())
	return 0
}

func flattenOps(scripts [][]ldriver.Op) []ldriver.Op {
	var out []ldriver.Op
	for _, s := range scripts {
		out = append(out, s...)
	}
	return out
}
